# -*- coding: utf-8 -*-
"""Simulated disk: a fault-injecting proxy over a private real directory.

The library's ``open`` (module global of midi_file_out / midi_file_in) is
replaced by SimDisk.open, which hands back the *real* stdlib buffered object
(io.BufferedWriter / io.BufferedReader / io.BufferedRandom) over a SimRawFile
whose write/readinto follow the run's fault plan and then act on a real file
inside a per-run sandbox directory (the run's working directory).  Because the
bytes live in real files, code under test that also consults the file system
(os.path.exists, os.replace of a temporary file, os.remove, getsize ...) sees a
consistent world, and what the properties talk about is simply the content of
the real file after the call.

Fault plans (plain JSON):
  {"kind": "short", "sizes": [3, 1, 7]}        raw writes/reads accept at most sizes[i % n] bytes (legal POSIX)
  {"kind": "error", "where": "open"|"write", "at": <byte offset>, "errno": "ENOSPC"|"EIO"|"EACCES"}
"""
from __future__ import annotations

import errno as _errno
import io
import os
import shutil
import tempfile

from .kernel import SimBudgetExceeded

RAW_CALL_CAP = 200000


def _sandbox_parent():
    for d in ("/dev/shm", tempfile.gettempdir()):
        if os.path.isdir(d) and os.access(d, os.W_OK):
            return d
    return tempfile.gettempdir()


class SimRawFile(io.RawIOBase):
    def __init__(self, disk, path, real, mode, plan):
        io.RawIOBase.__init__(self)
        self.disk = disk
        self.path = path
        self.mode = mode
        self.plan = plan or None
        self.calls = 0
        self.f = io.FileIO(real, mode.replace("b", ""))
        self.name = path

    def readable(self):
        return self.f.readable()

    def writable(self):
        return self.f.writable()

    def seekable(self):
        return True

    def seek(self, off, whence=0):
        return self.f.seek(off, whence)

    def tell(self):
        return self.f.tell()

    def truncate(self, size=None):
        return self.f.truncate(size)

    def fileno(self):
        return self.f.fileno()

    def _limit(self, n, kind):
        p = self.plan
        if p and p.get("kind") in ("short", "short_read") and p.get("sizes"):
            k = p["sizes"][self.calls % len(p["sizes"])]
            if k >= 1 and k < n:
                self.disk.fired(kind)
                return k
        return n

    def write(self, b):
        self.calls += 1
        self.disk.raw_calls += 1
        if self.disk.raw_calls > RAW_CALL_CAP:
            raise SimBudgetExceeded("raw write called %d times" % self.disk.raw_calls)
        b = bytes(b)
        n = len(b)
        pos = self.f.tell()
        p = self.plan
        if p and p.get("kind") == "error" and p.get("where") == "write":
            at = p["at"]
            if pos >= at:
                self.disk.fired("write_error")
                self.disk.trace.ev("raw_write_error", self.path, pos, p["errno"])
                raise OSError(getattr(_errno, p["errno"]), "simulated " + p["errno"])
            if pos + n > at:
                n = at - pos  # torn: accept up to the fault offset, fail on the next call
        n = self._limit(n, "short_write")
        self.f.write(b[:n])
        self.disk.bytes_written += n
        self.disk.trace.ev("raw_write", self.path, pos, n)
        return n

    def readinto(self, buf):
        self.calls += 1
        self.disk.raw_calls += 1
        if self.disk.raw_calls > RAW_CALL_CAP:
            raise SimBudgetExceeded("raw read called %d times" % self.disk.raw_calls)
        pos = self.f.tell()
        want = len(buf)
        if want > 0:
            want = self._limit(want, "short_read")
        data = self.f.read(want)
        n = len(data)
        buf[:n] = data
        self.disk.bytes_read += n
        self.disk.trace.ev("raw_read", self.path, pos, n)
        return n

    def close(self):
        # not traced: an unclosed handle is closed by the garbage collector at a
        # moment that depends on the allocation history of the process
        if not self.closed:
            try:
                self.f.close()
            except Exception:
                pass
        io.RawIOBase.close(self)


class SimDisk(object):
    def __init__(self, trace, faults):
        self.trace = trace
        self.faults = faults
        self.next_plan = None
        self.bufsize = io.DEFAULT_BUFFER_SIZE
        self.raw_calls = 0
        self.bytes_written = 0
        self.bytes_read = 0
        self.opens = []
        self.root = tempfile.mkdtemp(prefix="mingus-simdisk-", dir=_sandbox_parent())
        self.old_cwd = os.getcwd()
        os.chdir(self.root)  # relative paths of the code under test land in the sandbox

    # -- what the properties look at: the content of the real file ---------------
    def real(self, path):
        path = str(path)
        return path if os.path.isabs(path) else os.path.join(self.root, path)

    def exists(self, path):
        return os.path.isfile(self.real(path))

    def read_bytes(self, path):
        try:
            with io.FileIO(self.real(path), "r") as f:
                return f.readall()
        except OSError:
            return b""

    def write_bytes(self, path, data):
        with io.FileIO(self.real(path), "w") as f:
            f.write(bytes(data))

    def fired(self, kind):
        self.faults[kind] += 1

    def cleanup(self):
        try:
            os.chdir(self.old_cwd)
        except Exception:
            pass
        shutil.rmtree(self.root, ignore_errors=True)

    def open(self, file, mode="r", buffering=-1, *a, **kw):
        plan = self.next_plan
        self.next_plan = None
        self.opens.append((str(file), mode, buffering))
        self.trace.ev("open", str(file), mode, buffering)
        if plan and plan.get("kind") == "error" and plan.get("where") == "open":
            self.fired("open_error")
            raise OSError(getattr(_errno, plan["errno"]), "simulated " + plan["errno"])
        path = str(file)
        if "b" not in mode:
            raise ValueError("SimDisk only serves binary files (mode %r)" % (mode,))
        raw = SimRawFile(self, path, self.real(path), mode, plan)  # FileIO raises FileNotFoundError etc. like the real thing
        size = self.bufsize if buffering in (-1, None) else buffering
        if buffering == 0:
            return raw
        if "+" in mode:
            return io.BufferedRandom(raw, size)
        if "r" in mode:
            return io.BufferedReader(raw, size)
        return io.BufferedWriter(raw, size)


def install(disk, silence=True):
    """Shadow ``open`` / ``print`` in the two MIDI modules (module globals are
    resolved before builtins, so no source line changes)."""
    import mingus.midi.midi_file_in as mfi
    import mingus.midi.midi_file_out as mfo

    mfo.open = disk.open
    mfi.open = disk.open
    if silence:
        mfo.print = lambda *a, **k: None
        mfi.print = lambda *a, **k: None
