# -*- coding: utf-8 -*-
"""Simulated disk at the raw-file level.

The library's ``open`` (module global of midi_file_out / midi_file_in) is
replaced by SimDisk.open, which hands back the *real* stdlib buffered object
(io.BufferedWriter / io.BufferedReader) over a SimRawFile whose write/readinto
follow the run's fault plan.  What the properties talk about is the byte store
of the inode after close.

Fault plans (plain JSON):
  {"kind": "short", "sizes": [3, 1, 7]}        raw writes/reads accept at most sizes[i % n] bytes (legal POSIX)
  {"kind": "error", "where": "open"|"write", "at": <byte offset>, "errno": "ENOSPC"|"EIO"|"EACCES"}
"""
from __future__ import annotations

import errno as _errno
import io

from .kernel import SimBudgetExceeded

RAW_CALL_CAP = 200000


class SimRawFile(io.RawIOBase):
    def __init__(self, disk, path, mode, plan):
        io.RawIOBase.__init__(self)
        self.disk = disk
        self.path = path
        self.mode = mode
        self.plan = plan or None
        self.pos = 0
        self.calls = 0
        if "a" in mode:
            self.pos = len(disk.files[path])
        self.name = path

    def readable(self):
        return "r" in self.mode or "+" in self.mode

    def writable(self):
        return "w" in self.mode or "a" in self.mode or "+" in self.mode

    def seekable(self):
        return True

    def seek(self, off, whence=0):
        if whence == 0:
            self.pos = off
        elif whence == 1:
            self.pos += off
        else:
            self.pos = len(self.disk.files[self.path]) + off
        return self.pos

    def tell(self):
        return self.pos

    def _limit(self, n):
        p = self.plan
        if p and p.get("kind") in ("short", "short_read") and p.get("sizes"):
            k = p["sizes"][self.calls % len(p["sizes"])]
            if k >= 1 and k < n:
                self.disk.fired("short_read" if self.readable() and not self.writable() else "short_write")
                return k
        return n

    def write(self, b):
        self.calls += 1
        self.disk.raw_calls += 1
        if self.disk.raw_calls > RAW_CALL_CAP:
            raise SimBudgetExceeded("raw write called %d times" % self.disk.raw_calls)
        b = bytes(b)
        n = len(b)
        p = self.plan
        if p and p.get("kind") == "error" and p.get("where") == "write":
            at = p["at"]
            if self.pos >= at:
                self.disk.fired("write_error")
                self.disk.trace.ev("raw_write_error", self.path, self.pos, p["errno"])
                raise OSError(getattr(_errno, p["errno"]), "simulated " + p["errno"])
            if self.pos + n > at:
                n = at - self.pos  # torn: accept up to the fault offset, fail on the next call
        n = self._limit(n)
        data = self.disk.files[self.path]
        if self.pos > len(data):
            data.extend(b"\0" * (self.pos - len(data)))
        data[self.pos : self.pos + n] = b[:n]
        self.pos += n
        self.disk.bytes_written += n
        self.disk.trace.ev("raw_write", self.path, self.pos - n, n)
        return n

    def readinto(self, buf):
        self.calls += 1
        self.disk.raw_calls += 1
        if self.disk.raw_calls > RAW_CALL_CAP:
            raise SimBudgetExceeded("raw read called %d times" % self.disk.raw_calls)
        data = self.disk.files[self.path]
        n = min(len(buf), max(0, len(data) - self.pos))
        if n > 0:
            n = self._limit(n)
        buf[:n] = data[self.pos : self.pos + n]
        self.pos += n
        self.disk.bytes_read += n
        self.disk.trace.ev("raw_read", self.path, self.pos - n, n)
        return n

    def close(self):
        # not traced: an unclosed handle is closed by the garbage collector at a
        # moment that depends on the allocation history of the process
        if not self.closed:
            self.disk.open_handles.discard(id(self))
        io.RawIOBase.close(self)


class SimDisk(object):
    def __init__(self, trace, faults):
        self.files = {}
        self.trace = trace
        self.faults = faults
        self.next_plan = None
        self.bufsize = io.DEFAULT_BUFFER_SIZE
        self.raw_calls = 0
        self.bytes_written = 0
        self.bytes_read = 0
        self.open_handles = set()
        self.opens = []

    def fired(self, kind):
        self.faults[kind] += 1

    def open(self, file, mode="r", buffering=-1, *a, **kw):
        plan = self.next_plan
        self.next_plan = None
        self.opens.append((str(file), mode, buffering))
        self.trace.ev("open", str(file), mode, buffering)
        if plan and plan.get("kind") == "error" and plan.get("where") == "open":
            self.fired("open_error")
            raise OSError(getattr(_errno, plan["errno"]), "simulated " + plan["errno"])
        path = str(file)
        if "b" not in mode:
            raise ValueError("SimDisk only serves binary files (mode %r)" % (mode,))
        if "r" in mode and "+" not in mode:
            if path not in self.files:
                raise FileNotFoundError(_errno.ENOENT, "No such file", path)
            raw = SimRawFile(self, path, mode, plan)
            self.open_handles.add(id(raw))
            if buffering == 0:
                return raw
            return io.BufferedReader(raw, self.bufsize if buffering in (-1, None) else buffering)
        if "w" in mode:
            self.files[path] = bytearray()
        elif path not in self.files:
            if "a" in mode:
                self.files[path] = bytearray()
            else:
                raise FileNotFoundError(_errno.ENOENT, "No such file", path)
        raw = SimRawFile(self, path, mode, plan)
        self.open_handles.add(id(raw))
        if buffering == 0:
            return raw
        if "+" in mode:
            return io.BufferedRandom(raw, self.bufsize if buffering in (-1, None) else buffering)
        return io.BufferedWriter(raw, self.bufsize if buffering in (-1, None) else buffering)


def install(disk, silence=True):
    """Shadow ``open`` / ``print`` in the two MIDI modules (module globals are
    resolved before builtins, so no source line changes)."""
    import mingus.midi.midi_file_in as mfi
    import mingus.midi.midi_file_out as mfo

    mfo.open = disk.open
    mfi.open = disk.open
    if silence:
        mfo.print = lambda *a, **k: None
        mfi.print = lambda *a, **k: None
