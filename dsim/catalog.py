# -*- coding: utf-8 -*-
"""Catalog of theory-API queries for the C15 engine.

Explicit data (not reflection), so the evidence can say exactly which
functions ran.  An entry is
    {"mod": <core module>, "fn": <function or class>, "args": [...], "then": [method, args...]?}
Arguments are JSON; lists are rebuilt fresh for every call.
"""
from __future__ import annotations

MAJOR = ["Cb", "Gb", "Db", "Ab", "Eb", "Bb", "F", "C", "G", "D", "A", "E", "B", "F#", "C#"]
MINOR = ["ab", "eb", "bb", "f", "c", "g", "d", "a", "e", "b", "f#", "c#", "g#", "d#", "a#"]
KEYS = MAJOR + MINOR
NAMES = ["C", "D", "E", "F", "G", "A", "B", "C#", "Db", "Eb", "F#", "Gb", "Ab", "Bb", "E#", "Fb", "B#", "Cb", "C##", "Dbb"]
ROOTS = ["C", "F#", "Bb", "E"]
BAD_NAMES = ["H", "", "c", "C-4", "Cx"]

INTERVAL_NAMED = [
    "minor_unison", "major_unison", "augmented_unison", "minor_second", "major_second", "minor_third", "major_third",
    "minor_fourth", "major_fourth", "perfect_fourth", "minor_fifth", "major_fifth", "perfect_fifth", "minor_sixth",
    "major_sixth", "minor_seventh", "major_seventh",
]
INTERVAL_DIATONIC = ["unison", "second", "third", "fourth", "fifth", "sixth", "seventh"]
SHORTHANDS = ["1", "b2", "2", "#2", "b3", "3", "4", "#4", "b5", "5", "#5", "b6", "6", "bb7", "b7", "7", "#7", "##4", "bb3"]

SCALES = ["Ionian", "Dorian", "Phrygian", "Lydian", "Mixolydian", "Aeolian", "Locrian", "Major", "HarmonicMajor", "NaturalMinor", "HarmonicMinor", "MelodicMinor", "Bachian", "MinorNeapolitan", "Chromatic", "WholeTone", "Octatonic"]

CHORD_FUNCS = ["tonic", "tonic7", "supertonic", "supertonic7", "mediant", "mediant7", "subdominant", "subdominant7", "dominant", "dominant7", "submediant", "submediant7", "subtonic", "subtonic7"]
CHORD_NUMERALS = ["I", "I7", "ii", "II", "ii7", "II7", "iii", "III", "iii7", "III7", "IV", "IV7", "V", "V7", "vi", "VI", "vi7", "VI7", "vii", "VII", "vii7", "VII7"]
CHORD_NAMED = [
    "major_triad", "minor_triad", "diminished_triad", "augmented_triad", "suspended_triad", "suspended_second_triad", "suspended_fourth_triad",
    "major_seventh", "minor_seventh", "dominant_seventh", "half_diminished_seventh", "minor_seventh_flat_five", "diminished_seventh",
    "minor_major_seventh", "augmented_major_seventh", "augmented_minor_seventh", "suspended_seventh", "suspended_fourth_ninth",
    "major_sixth", "minor_sixth", "dominant_sixth", "sixth_ninth", "minor_ninth", "major_ninth", "dominant_ninth", "dominant_flat_ninth",
    "dominant_sharp_ninth", "eleventh", "minor_eleventh", "minor_thirteenth", "major_thirteenth", "dominant_thirteenth",
    "dominant_flat_five", "lydian_dominant_seventh", "hendrix_chord",
]
CHORD_SHORTHANDS = ["", "m", "M", "dim", "aug", "+", "7", "m7", "M7", "dim7", "m7b5", "mM7", "sus4", "sus2", "sus", "6", "m6", "9", "m9", "M9", "7b9", "7#9", "11", "m11", "13", "m13", "M13", "7b5", "7#11", "hendrix", "6/9", "add9", "7b12", "/G", "5"]
DETERMINE_CHORDS = [
    ["C", "E", "G"], ["A", "C", "E"], ["E", "G", "C"], ["G", "C", "E"], ["C", "E", "G", "B"], ["C", "E", "G", "Bb"], ["D", "F", "A", "C"],
    ["B", "D", "F", "A"], ["C", "E", "G", "B", "D"], ["C", "F", "G"], ["C", "Eb", "Gb", "A"], ["C", "E", "G#"], ["F", "A", "C", "E", "G", "B"],
    ["C", "E"], ["C"], [], ["C", "E", "G", "B", "D", "F", "A"], ["A", "C", "E", "G", "B", "D", "F#"],
]
PROGRESSIONS = [["I"], ["I", "IV", "V"], ["ii", "V7", "I"], ["I", "vi", "ii7", "V7"], ["bIII", "#iv"], ["VIIdim7", "Im7"], ["I", "bIIdim7", "bII7"], ["iii", "vi", "IVM7"]]
NUMERALS = ["I", "ii", "iii", "IV", "V", "vi", "vii", "I7", "V7", "IVM7", "iim7", "VIIdim", "bII", "#IV", "Idim7", "viidim7", "VM", "iiim"]


def E(mod, fn, *args, **kw):
    d = {"mod": mod, "fn": fn, "args": list(args)}
    if "then" in kw:
        d["then"] = kw["then"]
    if "kw" in kw:
        d["kw"] = kw["kw"]
    if "twin" in kw:
        d["twin"] = kw["twin"]
    return d


def build():
    c = []
    # ---- notes
    for n in NAMES + BAD_NAMES:
        for fn in ("note_to_int", "is_valid_note", "augment", "diminish", "reduce_accidentals", "remove_redundant_accidentals"):
            c.append(E("notes", fn, n))
    for i in list(range(-1, 13)):
        for acc in ("#", "b"):
            c.append(E("notes", "int_to_note", i, acc))
    c.append(E("notes", "int_to_note", 3, "x"))
    for a, b in [("C#", "Db"), ("E#", "F"), ("C", "D"), ("B#", "C"), ("Cb", "B"), ("A##", "B")]:
        c.append(E("notes", "is_enharmonic", a, b))
    # ---- intervals
    for n in NAMES[:14]:
        for fn in INTERVAL_NAMED:
            c.append(E("intervals", fn, n))
    for n in ["C", "E", "F#", "Bb", "B"]:
        for k in ["C", "G", "F", "Bb", "e", "A"]:
            for fn in INTERVAL_DIATONIC:
                c.append(E("intervals", fn, n, k))
            c.append(E("intervals", "interval", k, n, 3))
            c.append(E("intervals", "get_interval", n, 5, k))
    for a, b in [("C", "E"), ("C", "Eb"), ("E", "C"), ("C", "G#"), ("C", "Gb"), ("B", "C"), ("C", "B#"), ("C", "C"), ("F", "B"), ("Cb", "F#")]:
        c.append(E("intervals", "measure", a, b))
        c.append(E("intervals", "determine", a, b))
        c.append(E("intervals", "determine", a, b, True))
        for fn in ("is_consonant", "is_perfect_consonant", "is_dissonant"):
            c.append(E("intervals", fn, a, b))
            c.append(E("intervals", fn, a, b, False))
        c.append(E("intervals", "is_imperfect_consonant", a, b))
    for n in ["C", "F#", "Bb", "E#"]:
        for sh in SHORTHANDS:
            c.append(E("intervals", "from_shorthand", n, sh))
            c.append(E("intervals", "from_shorthand", n, sh, False))
    for lst in (["C", "E"], ["C", "E", "G"], ["A"], [], ["C", "E", "G", "B"]):
        c.append(E("intervals", "invert", lst))
    # ---- keys
    for k in KEYS + ["H", "c#b", "Fb"]:
        for fn in ("get_notes", "get_key_signature", "get_key_signature_accidentals", "is_valid_key"):
            c.append(E("keys", fn, k))
        c.append(E("keys", "Key", k))
    for k in MINOR + ["C"]:
        c.append(E("keys", "relative_major", k))
    for k in MAJOR + ["a"]:
        c.append(E("keys", "relative_minor", k))
    for a in range(-8, 9):
        c.append(E("keys", "get_key", a))
    # ---- scales
    for s in SCALES:
        for t in ROOTS:
            c.append(E("scales", s, t, then=["ascending"]))
            c.append(E("scales", s, t, then=["descending"]))
        c.append(E("scales", s, "D", 2, then=["ascending"]))
        c.append(E("scales", s, "G", then=["degree", 3]))
    # the same tonic asked with different octave counts and through different classes
    for s in SCALES:
        for t in ("C", "D"):
            for o in (1, 2, 3):
                c.append(E("scales", s, t, o, then=["ascending"]))
            c.append(E("scales", s, t, 2, then=["descending"]))
    for sem in ([3, 7], [2, 6], [1, 5], [4, 7], [3, 6], [2, 5], [1, 4]):
        for t in ("C", "D", "E"):
            for o in (1, 2, 3):
                c.append(E("scales", "Diatonic", t, sem, o, then=["ascending"]))
    c.append(E("scales", "Diatonic", "C", [3, 7], then=["ascending"]))
    for lst in (["C", "D", "E", "F", "G", "A", "B"], ["A", "B", "C", "D", "E", "F", "G"], ["C", "D", "E"], ["C", "D", "Eb", "F", "G", "Ab", "B"]):
        c.append(E("scales", "determine", lst))
    # ---- chords
    for k in KEYS:
        c.append(E("chords", "triads", k))
        c.append(E("chords", "sevenths", k))
    for k in ["C", "G", "Eb", "F#", "a", "c#", "bb"]:
        for fn in CHORD_FUNCS + CHORD_NUMERALS:
            c.append(E("chords", fn, k))
        for n in ["C", "E", "B"]:
            c.append(E("chords", "triad", n, k))
            c.append(E("chords", "seventh", n, k))
    for n in ["C", "F#", "Bb"]:
        for fn in CHORD_NAMED:
            c.append(E("chords", fn, n))
    for r in ["C", "F#", "Bb", "A"]:
        for sh in CHORD_SHORTHANDS:
            c.append(E("chords", "from_shorthand", r + sh))
    c.append(E("chords", "from_shorthand", "C", "G"))
    c.append(E("chords", "from_shorthand", ["C", "Am"]))
    c.append(E("chords", "from_shorthand", "Hm"))
    c.append(E("chords", "from_shorthand", "Cxyz"))
    c.append(E("chords", "from_shorthand", "Am|C"))
    for ch in DETERMINE_CHORDS:
        c.append(E("chords", "determine", ch))
        c.append(E("chords", "determine", ch, True))
        c.append(E("chords", "determine", ch, False, True))
        c.append(E("chords", "determine", ch, True, False, True))
        if len(ch) == 3:
            c.append(E("chords", "determine_triad", ch))
            c.append(E("chords", "determine_triad", ch, True, True))
        if len(ch) == 4:
            c.append(E("chords", "determine_seventh", ch))
            c.append(E("chords", "determine_seventh", ch, True))
        if len(ch) >= 1:
            for fn in ("invert", "first_inversion", "second_inversion", "third_inversion"):
                c.append(E("chords", fn, ch))
    # ---- progressions
    for k in ["C", "G", "Eb", "F#", "a", "c#", "Bb"]:
        for p in PROGRESSIONS:
            c.append(E("progressions", "to_chords", p, k))
        for nm in NUMERALS:
            c.append(E("progressions", "to_chords", nm, k))
        for ch in DETERMINE_CHORDS[:8]:
            c.append(E("progressions", "determine", ch, k))
            c.append(E("progressions", "determine", ch, k, True))
    c.append(E("progressions", "to_chords", ["VIII"], "C"))
    c.append(E("progressions", "to_chords", ["I"], "H"))
    for nm in NUMERALS + ["bbVII7", "##IIm", "VIII", "x"]:
        c.append(E("progressions", "parse_string", nm))
        c.append(E("progressions", "skip", nm.strip("b#")[:3] if nm.strip("b#")[:3] in ("I", "II", "III", "IV", "V", "VI", "VII") else "I", 1))
    for t in (["I", 0, ""], ["V", -1, "7"], ["II", 2, "m7"], ["VII", -2, "dim"]):
        c.append(E("progressions", "tuple_to_string", t))
    for p in PROGRESSIONS:
        for i in range(len(p)):
            for fn in ("substitute_harmonic", "substitute_minor_for_major", "substitute_major_for_minor", "substitute_diminished_for_diminished", "substitute_diminished_for_dominant"):
                c.append(E("progressions", fn, p, i))
                c.append(E("progressions", fn, p, i, True))
            for depth in (0, 1, 2):
                c.append(E("progressions", "substitute", p, i, depth))
    c.append(E("progressions", "interval_diff", "I", "V", 7))
    c.append(E("progressions", "interval_diff", "V", "I", 5))
    c.append(E("progressions", "interval_diff", "ii", "vi", 7))
    # the whole small domain: an answer for (a, b, n) must not depend on what was asked for (a, b', n) before
    for p1 in ("I", "II", "III", "IV", "V", "VI", "VII"):
        for p2 in ("I", "II", "III", "IV", "V", "VI", "VII"):
            for n in (1, 3, 8, 9):
                c.append(E("progressions", "interval_diff", p1, p2, n))
    for p1 in ("I", "IV", "VII"):
        for n in (1, 2, 3):
            c.append(E("progressions", "skip", p1, n))
    # ---- value
    for a in (1, 2, 4, 8, 16, 3, 6, 5, 12):
        for b in (4, 8, 16, 6):
            c.append(E("value", "add", a, b))
            c.append(E("value", "subtract", a, b))
        for fn in ("triplet", "quintuplet", "septuplet", "determine"):
            c.append(E("value", fn, a))
        c.append(E("value", "septuplet", a, False))
        for nr in (0, 1, 2, 3):
            c.append(E("value", "dots", a, nr))
        c.append(E("value", "tuplet", a, 3, 2))
        c.append(E("value", "tuplet", a, 5, 4))
    for v in (2.6666666666666665, 1.5, 7, 9, 0.25, 3.2, 192, 200):
        c.append(E("value", "determine", v))
    # ---- meter
    for m in ([4, 4], [3, 4], [6, 8], [5, 4], [7, 8], [9, 8], [12, 8], [2, 2], [0, 4], [4, 3], [4, 0], [3, 16], [4, 6]):
        for fn in ("is_valid", "is_compound", "is_simple", "is_asymmetrical"):
            c.append(E("meter", fn, m))
    for d in (0, 1, 2, 3, 4, 6, 8, 12, 16, 32, 64, 128, 100):
        c.append(E("meter", "valid_beat_duration", d))
    # ---- argument pairs that a careless memo key (e.g. the concatenation of the arguments) would confuse:
    # (X+'b', 'b') and (X, 'bb') -- both 'b' and 'bb' are valid (minor) keys
    for X in ("A", "B", "C", "D", "E", "F", "G"):
        for fn in ("triad", "seventh"):
            c.append(E("chords", fn, X + "b", "b", twin="%s:%s" % (fn, X)))
            c.append(E("chords", fn, X, "bb", twin="%s:%s" % (fn, X)))
        for fn in INTERVAL_DIATONIC[1:]:
            c.append(E("intervals", fn, X + "b", "b", twin="%s:%s" % (fn, X)))
            c.append(E("intervals", fn, X, "bb", twin="%s:%s" % (fn, X)))
        c.append(E("intervals", "get_interval", X + "b", 3, "b", twin="gi:%s" % X))
        c.append(E("intervals", "get_interval", X, 3, "bb", twin="gi:%s" % X))
    # ---- constructors of the container / MIDI classes (the result is the encoded object):
    # a separately created object must look the same whatever was created before it
    for args, kw in (
        (["C"], {}), (["G", 5], {}), (["E", 4], {"velocity": 110, "channel": 9}), (["A", 3, {"velocity": 30}], {}), ([60], {}), (["C-5"], {}),
        (["Bb", 2], {"channel": 3}), (["F#", 6], {"velocity": 1}), ([], {}), (["H"], {}), (["D", 4, {"channel": 12, "velocity": 99}], {}),
    ):
        c.append(E("containers", "Note", *args, kw=kw))
    c.append(E("containers", "Note", "C", 4, then=["to_hertz"]))
    c.append(E("containers", "Note", "A", 4, then=["to_shorthand"]))
    c.append(E("containers", "Note", then=["from_shorthand", "c''"]))
    c.append(E("containers", "Note", then=["from_hertz", 440]))
    c.append(E("containers", "Note", then=["from_int", 61]))
    for args in ([], [["C", "E", "G"]], ["C"], [[["C", 5], ["E", 5, {"velocity": 20}]]], [["G", "B", "D", "F"]]):
        c.append(E("containers", "NoteContainer", *args))
    for sh in ("Am", "C7", "F#dim", "Bbsus4"):
        c.append(E("containers", "NoteContainer", then=["from_chord", sh]))
    for st, sh, up in (("C", "5", True), ("C", "5", False), ("E", "b3", True), ("G", "7", False)):
        c.append(E("containers", "NoteContainer", then=["from_interval", st, sh, up]))
    for num, key in (("VI", "C"), ("V7", "G"), ("ii", "Eb"), ("I", "a")):
        c.append(E("containers", "NoteContainer", then=["from_progression", num, key]))
    c.append(E("containers", "NoteContainer", ["C", "E", "G"], then=["determine"]))
    for args in ([], ["G", [3, 4]], ["eb", [6, 8]], ["C", [0, 0]]):
        c.append(E("containers", "Bar", *args))
    c.append(E("containers", "Track"))
    c.append(E("containers", "Track", then=["from_chords", ["C", ["Am", "Dm"], "G7"], 1]))
    c.append(E("containers", "Composition"))
    c.append(E("containers", "Suite"))
    for cls in ("Instrument", "Piano", "Guitar", "MidiInstrument", "MidiPercussionInstrument"):
        c.append(E("instrument", cls))
    c.append(E("instrument", "MidiInstrument", "Violin"))
    c.append(E("instrument", "Piano", then=["note_in_range", "C"]))
    c.append(E("instrument", "Guitar", then=["can_play_notes", ["E", "A", "D"]]))
    # methods that are handed lists / dicts by the caller
    c.append(E("instrument", "Instrument", then=["set_range", ["C-2", "C-5"]]))
    c.append(E("instrument", "Piano", then=["set_range", ["A-0", "C-8"]]))
    c.append(E("instrument", "Piano", then=["can_play_notes", ["C", "E", "G"]]))
    c.append(E("containers", "Note", "C", 4, {"velocity": 30}, kw={"velocity": 5}))
    c.append(E("containers", "Note", "C", 4, {"velocity": 30}, kw={"channel": 5}))
    c.append(E("containers", "Note", then=["set_note", "E", 5, {"velocity": 9}]))
    c.append(E("containers", "NoteContainer", then=["add_notes", ["C", "E", ["G", 5]]]))
    c.append(E("containers", "NoteContainer", then=["add_notes", [["C", 5], ["E", 5, {"velocity": 20}]]]))
    c.append(E("containers", "NoteContainer", ["C", "E", "G"], then=["remove_notes", ["C", "E"]]))
    c.append(E("containers", "NoteContainer", ["C", "E", "G"], then=["__add__", ["B", "D"]]))
    c.append(E("containers", "NoteContainer", ["C", "E", "G"], then=["__sub__", ["E"]]))
    c.append(E("containers", "Bar", then=["place_notes", ["C", "E"], 4]))
    c.append(E("containers", "Bar", then=["__add__", ["C", "E"]]))
    c.append(E("containers", "Bar", "C", [3, 4], then=["set_meter", [6, 8]]))
    c.append(E("containers", "Track", then=["add_notes", ["C", "E"], 4]))
    c.append(E("containers", "Track", then=["from_chords", [["C", "Am"], None, ["G7", ["Dm", "F"]]], 2]))
    c.append(E("midi_track", "MidiTrack"))
    c.append(E("midi_track", "MidiTrack", 90))
    c.append(E("midi_track", "MidiTrack", then=["get_midi_data"]))
    for n in (0, 127, 128, 16383, 16384, 2097151, 2097152):
        c.append(E("midi_track", "MidiTrack", then=["int_to_varbyte", n]))
    c.append(E("midi_file_out", "MidiFile"))
    c.append(E("midi_file_out", "MidiFile", then=["get_midi_data"]))
    c.append(E("midi_file_in", "MidiFile"))
    c.append(E("sequencer", "Sequencer"))
    return c


CATALOG = build()
