# -*- coding: utf-8 -*-
"""World-building ops shared by the sequencer and MIDI engines.

Every op is plain JSON data; object references are indices taken modulo the
number of live objects of that kind (no-op when there are none), so every op
list is executable.  The model side records only what the library *accepted*;
refusals and exceptions of builder ops are counted (probe builder_refused)
and judged by the properties that own those rules (C13/C14), not here.
"""
from __future__ import annotations

import copy

from fractions import Fraction

from . import score


class MBar(object):
    def __init__(self, obj, key, meter):
        self.obj = obj
        self.key = key
        self.meter = tuple(meter)
        self.entries = []  # dicts: len, sym, notes (list of (name,oct,ch,vel) sorted by pitch) or None, bpm
        self.owner = None  # track index once added to a track

    @property
    def length(self):
        return Fraction(self.meter[0], self.meter[1]) if self.meter[1] else Fraction(0)

    def total(self):
        t = Fraction(0)
        for e in self.entries:
            t += e["len"]
        return t

    def is_exactly_full(self):
        return len(self.entries) > 0 and self.total() == self.length


class MTrack(object):
    def __init__(self, obj, instr, name):
        self.obj = obj
        self.instr = instr
        self.name = name
        self.bars = []  # indices into world.bars
        self.owner = None


class MComp(object):
    def __init__(self, obj):
        self.obj = obj
        self.tracks = []


class World(object):
    def __init__(self, trace, probes):
        from mingus.containers.bar import Bar  # noqa: F401  (import check only)

        self.trace = trace
        self.probes = probes
        self.bars = []
        self.tracks = []
        self.comps = []

    # -- helpers ---------------------------------------------------------
    def pick(self, lst, i):
        if not lst:
            return None
        return lst[i % len(lst)]

    def make_note(self, spec):
        from mingus.containers.note import Note

        name, octave, ch, vel = spec
        return Note(name, octave, velocity=vel, channel=ch)

    # -- ops -------------------------------------------------------------
    def apply(self, op):
        kind = op["op"]
        fn = getattr(self, "op_" + kind, None)
        if fn is None:
            return False
        try:
            fn(op)
        except Exception as e:  # builder op raised inside the library
            self.probes["builder_refused"] += 1
            self.trace.ev("builder_exc", kind, type(e).__name__)
        return True

    def op_bar(self, op):
        from mingus.containers.bar import Bar

        b = Bar(op["key"], tuple(op["meter"]))
        self.bars.append(MBar(b, op["key"], op["meter"]))
        self.trace.ev("bar", op["key"], op["meter"])

    def op_place(self, op):
        mb = self.pick(self.bars, op["bar"])
        if mb is None:
            return
        from mingus.containers.note_container import NoteContainer

        v = score.sym_value(op["v"])
        ln = score.sym_length(op["v"])
        notes = op.get("notes")
        if notes is None:
            if op.get("empty_nc"):
                ok = mb.obj.place_notes(NoteContainer(), v)
            else:
                ok = mb.obj.place_rest(v)
            model_notes = None
        else:
            objs = [self.make_note(s) for s in notes]
            ok = mb.obj.place_notes(objs, v)
            model_notes = sorted([tuple(s) for s in notes], key=lambda s: score.pitch_of(s[0], s[1]))
        self.trace.ev("place", op["bar"], notes, op["v"], bool(ok))
        if not ok:
            self.probes["builder_refused"] += 1
            return
        bpm = op.get("bpm")
        if bpm is not None and mb.obj.bar[-1][2] is not None:
            mb.obj.bar[-1][2].bpm = bpm  # also on an empty container: a tempo mark on a silent beat
        else:
            bpm = None
        mb.entries.append({"len": ln, "sym": op["v"], "notes": model_notes, "bpm": bpm})

    def op_track(self, op):
        from mingus.containers.track import Track
        from mingus.containers import instrument as I

        spec = op.get("instr") or ["none"]
        if spec[0] == "none":
            ins = None
        elif spec[0] == "plain":
            ins = I.Instrument()
        elif spec[0] == "piano":
            ins = I.Piano()
        elif spec[0] == "midi":
            ins = I.MidiInstrument(spec[1] if spec[1] is not None else "")
            if spec[2] is not None:
                ins.instrument_nr = spec[2]
        else:
            ins = None
        late = bool(op.get("late")) and ins is not None
        t = Track(None if late else ins)
        if op.get("name") is not None:
            t.name = op["name"]
        mt = MTrack(t, spec, op.get("name"))
        mt.pending_instr = ins if late else None
        self.tracks.append(mt)
        self.trace.ev("track", spec, op.get("name"), late)

    def op_tadd(self, op):
        mt = self.pick(self.tracks, op["track"])
        mb = self.pick(self.bars, op["bar"])
        if mt is None or mb is None:
            return
        if mb.owner is not None:
            if op.get("share") and mb.owner != self.tracks.index(mt):
                mb.shared = True
                self.probes["bar_object_shared_by_two_tracks"] += 1  # a doubling: two tracks hold the same Bar object
                mt.obj.add_bar(mb.obj)
                mt.bars.append(self.bars.index(mb))
                self.trace.ev("tadd_share", op["track"], op["bar"])
                return
            if not op.get("again") or mb.owner != self.tracks.index(mt):
                return
            self.probes["same_bar_object_added_again"] += 1  # the same Bar object twice in one track: it is played / written twice
        mt.obj.add_bar(mb.obj)
        mb.owner = self.tracks.index(mt)
        mt.bars.append(self.bars.index(mb))
        self.trace.ev("tadd", op["track"], op["bar"])

    def op_setinstr(self, op):
        """the instrument is attached to the finished track (t.instrument = m), as the library's own example does"""
        mt = self.pick(self.tracks, op["track"])
        if mt is None or getattr(mt, "pending_instr", None) is None:
            return
        mt.obj.instrument = mt.pending_instr
        mt.pending_instr = None
        self.probes["instrument_attached_late"] += 1
        self.trace.ev("setinstr", op["track"])

    def op_setnote(self, op):
        """one note of a placed chord is replaced through the container's item assignment (public API);
        the container keeps its order, which need not be ascending any more"""
        from mingus.containers.note import Note  # noqa: F401

        mb = self.pick(self.bars, op["bar"])
        if mb is None or not mb.entries:
            return
        cand = [i for i, e in enumerate(mb.entries) if e["notes"]]
        if not cand:
            return
        i = cand[op["entry"] % len(cand)]
        e = mb.entries[i]
        j = op["pos"] % len(e["notes"])
        spec = tuple(op["note"])
        newp = score.pitch_of(spec[0], spec[1])
        if any(k != j and score.pitch_of(n[0], n[1]) == newp for k, n in enumerate(e["notes"])):
            return  # would repeat a pitch inside the container
        mb.obj.bar[i][2][j] = self.make_note(spec)
        e["notes"] = list(e["notes"])
        e["notes"][j] = spec
        ps = [score.pitch_of(n[0], n[1]) for n in e["notes"]]
        if ps != sorted(ps):
            self.probes["container_not_ascending_after_item_assignment"] += 1
        self.trace.ev("setnote", op["bar"], i, j, list(spec))

    def op_transpose(self, op):
        """music is transposed after it was built (container, bar or track level, public API): every
        note moves by the interval's semitones and stays the note it was - its channel and velocity"""
        SEMI = {"1": 0, "2": 2, "3": 4, "4": 5, "5": 7, "6": 9, "7": 11}
        sh = op["interval"]
        delta = SEMI[sh[-1]] + sh.count("#") - sh.count("b")
        if not op.get("up", True):
            delta = -delta
        level = op.get("level", "nc")
        if level == "track":
            mt = self.pick(self.tracks, op["ref"])
            if mt is None or not mt.bars:
                return
            bar_ids = list(dict.fromkeys(mt.bars))
            target = mt.obj
        else:
            mb0 = self.pick(self.bars, op["ref"])
            if mb0 is None:
                return
            bar_ids = [self.bars.index(mb0)]
            target = mb0.obj
        mbs = [self.bars[i] for i in bar_ids]
        if level == "track" and any(self.bars[i].owner != self.tracks.index(mt) or getattr(self.bars[i], "shared", False) for i in bar_ids):
            return
        if level == "track" and len(bar_ids) != len(mt.bars):
            return  # a bar object that sits in the track twice would move twice
        todo = []  # (model entry, library container)
        for mb in mbs:
            if not self._bar_consistent(mb):
                return
            for i, e in enumerate(mb.entries):
                if e["notes"]:
                    todo.append((e, mb.obj.bar[i][2]))
        if level == "nc":
            if not todo:
                return
            todo = [todo[op.get("entry", 0) % len(todo)]]
            target = todo[0][1]
        for e, nc in todo:
            if len(set(score.pitch_of(n[0], n[1]) for n in e["notes"])) != len(e["notes"]):
                return  # a unison doubling inside the container: notes cannot be told apart by pitch
            for n in e["notes"]:
                p = score.pitch_of(n[0], n[1]) + delta
                if not (-12 <= p <= 115):
                    return  # would leave the MIDI range
        target.transpose(sh, op.get("up", True))
        for e, nc in todo:
            want = [score.pitch_of(n[0], n[1]) + delta for n in e["notes"]]
            lib = list(nc.notes)
            got = {}
            for ln in lib:
                try:
                    got.setdefault(score.pitch_of(ln.name, ln.octave), (ln.name, ln.octave))
                except Exception:
                    pass
            if len(lib) != len(want) or any(w not in got for w in want) or len(set(want)) != len(want):
                # the transposition itself went wrong: that is C11's rule, nothing here is judged on this bar any more
                self.probes["transposition_not_semitone_exact"] += 1
                try:
                    adopted = [(ln.name, ln.octave, ln.channel, ln.velocity) for ln in lib]
                    [score.pitch_of(a[0], a[1]) for a in adopted]
                    e["notes"] = adopted
                except Exception:
                    pass  # unreadable names: the model keeps what was built and the bar is judged against that
                continue
            e["notes"] = [(got[w][0], got[w][1], n[2], n[3]) for w, n in zip(want, e["notes"])]
        self.probes["music_transposed_after_building"] += 1
        self.trace.ev("transpose", level, op["ref"], sh, op.get("up", True))

    def op_peek(self, op):
        """someone looks at the music before it is played or written: a loop over a track, bar or
        container that is left early (public iteration protocol, read only)"""
        what = op.get("what", "track")
        if what == "track":
            m = self.pick(self.tracks, op["ref"])
        else:
            m = self.pick(self.bars, op["ref"])
        if m is None:
            return
        obj = m.obj
        if what == "nc":
            cs = [e[2] for e in obj.bar if e[2] is not None]
            if not cs:
                return
            obj = cs[op.get("entry", 0) % len(cs)]
        k = 0
        for _x in obj:
            k += 1
            if k >= op.get("n", 1):
                break
        len(obj)
        self.probes["iteration_left_early_before_use"] += 1
        self.trace.ev("peek", what, op["ref"], k)

    def op_theory(self, op):
        """Theory chatter: the program asks the core modules something (interval, chord, scale, key, note
        arithmetic - also with names the library rejects) between building and playing / writing.  The
        answers are not judged here; what is judged is that the music played or written afterwards is
        still the music that was built, whatever was asked before."""
        import importlib

        from .kernel import LineBudget, SimBudgetExceeded

        calls = op.get("calls") or []
        self.probes["theory_chatter_ops"] += 1
        for c in calls:
            lb = LineBudget(400000)
            try:
                mod = importlib.import_module("mingus.core." + c["mod"])
                fn = getattr(mod, c["fn"])
                def ask():
                    r = fn(*copy.deepcopy(c["args"]), **copy.deepcopy(c.get("kw", {})))
                    if c.get("then"):
                        r = getattr(r, c["then"][0])(*copy.deepcopy(c["then"][1:]))
                    return r

                lb.call(ask)
                out = "ok"
            except SimBudgetExceeded:
                out = "stall"  # a question that never returns is another property's business
                self.probes["theory_chatter_call_cut_short"] += 1
            except Exception as ex:
                out = type(ex).__name__
                self.probes["theory_chatter_call_refused"] += 1
            self.trace.ev("theory", c["mod"], c["fn"], out)

    def op_unison(self, op):
        """a unison doubling inside one container: the second note of a chord is replaced by the pitch of
        the first on another channel (item assignment; the container then holds one pitch twice)"""
        mb = self.pick(self.bars, op["bar"])
        if mb is None:
            return
        cand = [i for i, e in enumerate(mb.entries) if e["notes"] and len(e["notes"]) >= 2]
        if not cand:
            return
        i = cand[op["entry"] % len(cand)]
        e = mb.entries[i]
        first = e["notes"][0]
        ch = op["ch"]
        if ch == first[2]:
            ch = (ch + 1) % 16
        spec = (first[0], first[1], ch, e["notes"][1][3])
        if any(k != 1 and n[2] == ch and score.pitch_of(n[0], n[1]) == score.pitch_of(spec[0], spec[1]) for k, n in enumerate(e["notes"])):
            return
        mb.obj.bar[i][2][1] = self.make_note(spec)
        e["notes"] = list(e["notes"])
        e["notes"][1] = spec
        mb.has_unison = True
        self.probes["unison_on_two_channels_in_one_container"] += 1
        self.trace.ev("unison", op["bar"], i, ch)

    def op_comp(self, op):
        from mingus.containers.composition import Composition

        self.comps.append(MComp(Composition()))
        self.trace.ev("comp")

    def op_cadd(self, op):
        mc = self.pick(self.comps, op["comp"])
        mt = self.pick(self.tracks, op["track"])
        if mc is None or mt is None or mt.owner is not None:
            return
        mc.obj.add_track(mt.obj)
        mt.owner = self.comps.index(mc)
        mc.tracks.append(self.tracks.index(mt))
        self.trace.ev("cadd", op["comp"], op["track"])

    # -- consistency between model and library objects ------------------
    def bar_consistent(self, mb):
        """Does the library bar hold exactly the entries the model recorded (count, rest/notes kind, note
        tuples)?  Observation only (a probe): the callers judge by the model either way."""
        if not self._bar_consistent(mb):
            # Never seen on the unchanged tree.  The music is what was built through the public API (the model);
            # a bar that silently became something else is judged against that, not excused.
            self.probes["library_bar_differs_from_what_was_built"] += 1
        return True

    def _bar_consistent(self, mb):
        try:
            lib = mb.obj.bar
            if len(lib) != len(mb.entries):
                return False
            for le, me in zip(lib, mb.entries):
                nc = le[2]
                if me["notes"] is None:
                    if not (nc is None or len(nc) == 0):
                        return False
                else:
                    got = [(n.name, n.octave, n.channel, n.velocity) for n in list(nc.notes)]
                    if got != [tuple(x) for x in me["notes"]]:
                        return False
            return True
        except Exception:
            return False


# ---------------------------------------------------------------------------
# generators for note material


CHATTER_LETTERS = "CDEFGAB"
CHATTER_NAMES = [l + acc * k for l in CHATTER_LETTERS for acc in ("#", "b") for k in range(0, 6)]
CHATTER_BAD = ["H", "", "c", "Cx", "X#", "C-4", "do", "b", "#"]
CHATTER_CORE = ("notes", "intervals", "keys", "scales", "chords", "progressions", "value", "meter")
_CHATTER_ENTRIES = None


def _chatter_entries():
    global _CHATTER_ENTRIES
    if _CHATTER_ENTRIES is None:
        from . import catalog

        _CHATTER_ENTRIES = [e for e in catalog.CATALOG if e["mod"] in CHATTER_CORE]
    return _CHATTER_ENTRIES


def gen_theory(rng):
    """One chatter op: a handful of questions to the core modules."""
    def name():
        r = rng.random()
        if r < 0.08:
            return rng.choice(CHATTER_BAD)
        if r < 0.5:
            return rng.choice(["C", "B", "Cb", "B#", "E", "F", "E#", "Fb", "G", "D", "A"])
        return rng.choice(CHATTER_NAMES)

    calls = []
    style = rng.random()
    if style < 0.15:
        # a burst of spellings, more than any bounded table would keep
        n = rng.choice([20, 40, 64, 70, 100, 140])
        pool = list(dict.fromkeys(CHATTER_NAMES + CHATTER_BAD[:3]))
        rng.shuffle(pool)
        for nm in pool[:n]:
            calls.append({"mod": "notes", "fn": rng.choice(["note_to_int", "note_to_int", "is_valid_note", "reduce_accidentals"]), "args": [nm]})
        return {"op": "theory", "calls": calls}
    for _ in range(rng.choice([1, 1, 2, 3, 5])):
        r = rng.random()
        if r < 0.35:
            e = rng.choice(_chatter_entries())
            calls.append(dict({"mod": e["mod"], "fn": e["fn"], "args": copy.deepcopy(e["args"])}, **{k: copy.deepcopy(e[k]) for k in ("then", "kw") if k in e}))
        elif r < 0.65:
            fn = rng.choice(["note_to_int", "augment", "diminish", "reduce_accidentals", "remove_redundant_accidentals", "is_valid_note"])
            calls.append({"mod": "notes", "fn": fn, "args": [name()]})
        elif r < 0.8:
            fn = rng.choice(["second", "third", "fourth", "fifth", "sixth", "seventh", "unison"])
            calls.append({"mod": "intervals", "fn": fn, "args": [name(), rng.choice(MAJOR_KEYS + MINOR_KEYS)]})
        elif r < 0.88:
            calls.append({"mod": "intervals", "fn": "get_interval", "args": [name(), rng.randrange(0, 13), rng.choice(MAJOR_KEYS)]})
        elif r < 0.92:
            calls.append({"mod": "intervals", "fn": rng.choice(["measure", "determine", "is_consonant"]), "args": [name(), name()]})
        elif r < 0.95:
            calls.append({"mod": rng.choice(["chords", "scales"]), "fn": "determine", "args": [[name() for _ in range(rng.choice([3, 3, 4]))]]})
        else:
            # chord symbols, also slash chords and polychords (the forms the container shorthands go through)
            root = rng.choice(["C", "G", "F", "D", "A", "E", "Bb", "Eb", "F#", "B"])
            kinds = ["", "m", "7", "M7", "m7", "dim", "aug", "sus4", "6", "9", "m7b5", "11", "13"]
            sym = root + rng.choice(kinds)
            form = rng.random()
            if form < 0.35:
                sym = rng.choice(["C", "G", "F", "D", "A", "E"]) + rng.choice(kinds[:5]) + "|" + sym
            elif form < 0.55:
                sym = sym + "/" + rng.choice(["C", "G", "E", "B", "F#"])
            calls.append({"mod": "chords", "fn": "from_shorthand", "args": [sym]})
    return {"op": "theory", "calls": calls}


def related_questions(rng, ops):
    """Questions about the very material the program uses later: the same chord symbol inside a polychord
    or over a bass note, the same interval from an enharmonic twin, the same names through the note
    arithmetic.  A table keyed too coarsely, or a stored answer that a sibling call edits, shows only then."""
    calls = []
    twins = {"C": "B#", "F": "E#", "B": "Cb", "E": "Fb", "C#": "Db", "Db": "C#", "F#": "Gb", "Gb": "F#", "G#": "Ab", "Ab": "G#", "Eb": "D#", "Bb": "A#", "D": "C##", "G": "F##", "A": "G##"}
    for op in ops:
        if op.get("op") == "shorthand" and isinstance(op.get("sh"), str):
            if op.get("kind") == "chord":
                r = rng.random()
                sym = op["sh"]
                if r < 0.4:
                    sym = rng.choice(["Dm", "C", "Am7", "G7", "F"]) + "|" + sym
                elif r < 0.6:
                    sym = sym + "/" + rng.choice(["C", "G", "E", "Bb"])
                elif r < 0.8:
                    sym = sym + "|" + rng.choice(["Dm", "C", "G"])
                calls.append({"mod": "chords", "fn": "from_shorthand", "args": [sym]})
            elif op.get("kind") == "interval" and isinstance(op.get("start"), str):
                start = op["start"].split("-")[0]
                calls.append({"mod": "intervals", "fn": "from_shorthand", "args": [twins.get(start, start), op["sh"], bool(op.get("up", True))]})
            elif op.get("kind") == "progression":
                calls.append({"mod": "progressions", "fn": "to_chords", "args": [[op["sh"]], rng.choice(MAJOR_KEYS)]})
        if op.get("op") == "from_chords":
            # the value arithmetic a split goes through, asked with the operands the other way round
            x, y = rng.choice([(8, 4), (2, 1), (4, 2), (16, 8), (4, 1), (8, 2), (1, 2), (4, 8), (2, 4)])
            calls.append({"mod": "value", "fn": rng.choice(["subtract", "subtract", "add"]), "args": [x, y]})
        for spec in (op.get("notes") or []) if isinstance(op.get("notes"), list) else []:
            if isinstance(spec, (list, tuple)) and spec and isinstance(spec[0], str) and rng.random() < 0.3:
                nm = spec[0]
                calls.append({"mod": "notes", "fn": rng.choice(["augment", "diminish", "reduce_accidentals", "note_to_int"]), "args": [rng.choice([nm, twins.get(nm, nm), nm + "b", nm + "#"])]})
    rng.shuffle(calls)
    return {"op": "theory", "calls": calls[: rng.choice([1, 2, 4, 8])]} if calls else None


def sprinkle_theory(rng, ops, p_head=0.3, p_between=0.03):
    """Insert chatter ops into a program: before anything is built (a process that
    has not converted a single note yet) and between the other steps."""
    out = []
    if rng.random() < 0.12:
        q = related_questions(rng, ops)
        if q is not None:
            out.append(q)
    if rng.random() < p_head:
        for _ in range(rng.choice([1, 1, 2])):
            out.append(gen_theory(rng))
    for op in ops:
        out.append(op)
        if rng.random() < p_between:
            out.append(gen_theory(rng))
    return out


NAMES_SIMPLE = ["C", "D", "E", "F", "G", "A", "B", "C#", "Eb", "F#", "Ab", "Bb", "Db", "G#"]
NAMES_EXOTIC = ["C##", "Dbb", "E#", "Fb", "B#", "Cb", "A##", "Gbb", "F##", "Bbb"]

MAJOR_KEYS = ["Cb", "Gb", "Db", "Ab", "Eb", "Bb", "F", "C", "G", "D", "A", "E", "B", "F#", "C#"]
MINOR_KEYS = ["ab", "eb", "bb", "f", "c", "g", "d", "a", "e", "b", "f#", "c#", "g#", "d#", "a#"]
ALL_KEYS = MAJOR_KEYS + MINOR_KEYS

METERS = [[2, 4], [3, 4], [4, 4], [5, 4], [6, 8], [3, 8], [7, 8], [9, 8], [12, 8], [2, 2], [3, 2], [4, 2], [6, 4], [4, 8], [1, 4], [4, 16], [1, 1], [1, 8], [3, 16], [1, 16], [2, 16], [128, 4096], [64, 1024]]


def gen_note(rng, channel=None, exotic=0.15, lo=-12, hi=115, vel_lo=0):
    """A note spec whose pitch+12 lies in 0..127 (MIDI 0-11 are the library's octave -1)."""
    if rng.random() < 0.08:
        # the edges of the MIDI range: pitch+12 of 0, 1, 11, 12, 13, 126, 127 and channel 0 / 15
        name, octave = rng.choice([("C", 0), ("C#", 0), ("Db", 0), ("C", -1), ("C#", -1), ("B", -1), ("F", -1), ("B#", -1), ("Cb", 0), ("G", 9), ("F#", 9), ("Gb", 9), ("F##", 9), ("Abb", 9)])
        p = score.pitch_of(name, octave)
        if lo <= p <= hi:
            ch = channel if channel is not None else rng.choice([0, 15])
            return [name, octave, ch, rng.choice([vel_lo, 1, 127, 64])]
    for _ in range(100):
        name = rng.choice(NAMES_EXOTIC) if rng.random() < exotic else rng.choice(NAMES_SIMPLE)
        octave = rng.choice([0, 1, 2, 3, 4, 4, 4, 5, 5, 6, 7, 8, 9])
        p = score.pitch_of(name, octave)
        if lo <= p <= hi:
            ch = channel if channel is not None else rng.randrange(16)
            r = rng.random()
            if r < 0.05:
                vel = vel_lo
            elif r < 0.1:
                vel = 127
            else:
                vel = rng.randrange(vel_lo, 128)
            return [name, octave, ch, vel]
    return ["C", 4, channel if channel is not None else 1, 64]


def gen_chord(rng, channel=None, max_notes=5, **kw):
    n = rng.choice([1, 1, 1, 2, 3, 3, 4, 5][: max(1, min(8, max_notes + 3))])
    n = min(n, max_notes)
    out, seen = [], set()
    for _ in range(n * 4):
        s = gen_note(rng, channel, **kw)
        p = score.pitch_of(s[0], s[1])
        if p in seen:
            continue
        seen.add(p)
        out.append(s)
        if len(out) == n:
            break
    return out
