# -*- coding: utf-8 -*-
"""C18 engine: the sequencer under a virtual clock, a recording synthesiser
and observers whose membership changes while events are being delivered.

Real code: mingus.midi.sequencer.Sequencer (every method),
SequencerObserver.notify dispatch, the containers; in config B also
mingus.midi.fluidsynth (FluidSynthSequencer + module-level wrappers).
Stubs: the synthesiser, the clock, the observers' bodies.
"""
from __future__ import annotations

import collections
import sys
import types
from fractions import Fraction

from .. import kernel, score, world
from ..kernel import SimBudgetExceeded, Trace

ENGINE_ID = 18
NAME = "seqsim"
SLEEP_CAP = 4000  # seam-call budget per API call

LOW = {0: "on", 1: "off", 2: "cc", 3: "instr", 4: "sleep"}


class _Sink(object):
    target = None


SINK = _Sink()


def _install_stubs():
    if "mingus.midi.pyfluidsynth" in sys.modules and getattr(sys.modules["mingus.midi.pyfluidsynth"], "_VERIF_STUB", False):
        return
    m = types.ModuleType("mingus.midi.pyfluidsynth")
    m._VERIF_STUB = True

    class Synth(object):
        def __init__(self, *a, **k):
            pass

        def start(self, driver=None):
            pass

        def delete(self):
            pass

        def sfload(self, filename, update_midi_preset=0):
            return 1

        def program_reset(self):
            pass

        def noteon(self, chan, key, vel):
            SINK.target.device("on", (key, chan, vel))

        def noteoff(self, chan, key):
            SINK.target.device("off", (key, chan))

        def cc(self, chan, ctrl, val):
            SINK.target.device("cc", (chan, ctrl, val))

        def program_select(self, chan, sfid, bank, preset):
            SINK.target.device("instr", (chan, preset, bank))

    m.Synth = Synth
    m.raw_audio_string = lambda data: b""
    sys.modules["mingus.midi.pyfluidsynth"] = m


class _ClockModule(object):
    """Stands in for the ``time`` module inside mingus.midi.fluidsynth."""

    @staticmethod
    def sleep(seconds):
        if SINK.target is not None:
            SINK.target.device("sleep", (seconds,))


def preload(prop):
    kernel.import_sut()
    _install_stubs()
    # the clock seam: whatever way mingus.midi.fluidsynth reaches time.sleep (attribute access on the module,
    # or a name bound by `from time import sleep` at import), it gets the virtual clock
    import time as _time

    _time.sleep = _ClockModule.sleep
    import mingus.midi.sequencer  # noqa
    import mingus.midi.sequencer_observer  # noqa
    import mingus.containers  # noqa
    import mingus.midi.fluidsynth as fl

    fl.time = _ClockModule


# ---------------------------------------------------------------------------


class Sim(object):
    def __init__(self, config, trace, faults, probes):
        self.config = config
        self.trace = trace
        self.faults = faults
        self.probes = probes
        self.dev = []  # (kind, args, vtime_before)
        self.now = Fraction(0)
        self.sleeps_in_call = 0
        self.observers = []
        self.model_attached = []  # oids in attach order
        self.in_low = None  # device index whose low-level notification is being delivered
        self.churn_inside_happened = False
        self.churn_log = []
        self.stray = []
        self.current_params = None

    # device side ------------------------------------------------------
    def device(self, kind, args):
        idx = len(self.dev)
        self.dev.append((kind, tuple(args), self.now))
        self.trace.ev("dev", idx, kind, [float(a) if isinstance(a, float) else a for a in args])
        if kind == "sleep":
            self.sleeps_in_call += 1
            if self.sleeps_in_call > SLEEP_CAP:
                raise SimBudgetExceeded("sleep called %d times in one API call" % self.sleeps_in_call)
            s = args[0]
            if isinstance(s, (int, float)) and s == s and s not in (float("inf"), float("-inf")) and s >= 0:
                self.now += Fraction(s)
        for oid in self.model_attached:
            self.observers[oid].req.append(idx)

    # observer side ----------------------------------------------------
    def on_notify(self, obs, msg_type):
        obs.nnotif += 1
        if obs.armed is None:
            return
        obs.armed["k"] -= 1
        if obs.armed["k"] > 0:
            return
        arm = obs.armed
        obs.armed = None
        low = msg_type in LOW
        e = len(self.dev) - 1 if low else None
        act = arm["act"]
        tgt = None
        if act in ("detach_self", "reattach_self"):
            tgt = obs
        elif act == "flicker_new":
            tgt = Obs(self, len(self.observers))
            self.observers.append(tgt)
        elif act in ("detach_other", "attach_dup", "reattach_other"):
            others = [o for o in self.observers if o is not obs]
            tgt = others[arm["target"] % len(others)] if others else obs
        elif act == "attach_new":
            tgt = Obs(self, len(self.observers))
            self.observers.append(tgt)
        self.faults["churn_inside"] += 1
        self.churn_inside_happened = True
        if low and self.dev[e][0] == "sleep":
            self.probes["churn_between_start_and_stop"] += 1
        if low and self.dev[e][0] in ("on", "off"):
            self.probes["churn_mid_chord_or_note_edge"] += 1
        if low and self.dev[e][0] == "instr":
            self.probes["churn_during_instrument_announcement"] += 1
        if not low:
            self.probes["churn_on_high_level_message"] += 1
        if obs.oid == (self.model_attached[0] if self.model_attached else -1) and len(self.model_attached) > 1:
            self.probes["churn_by_first_of_several"] += 1
        self.trace.ev("churn_inside", obs.oid, act, tgt.oid, msg_type, e)
        self.churn_log.append([obs.oid, act, tgt.oid, msg_type, e])
        if act.startswith("detach"):
            self.seq().detach(tgt)
            self.model_detach(tgt, e, inside=True)
        elif act.startswith("reattach"):
            # two opposite membership changes for one listener inside one delivery
            self.probes["opposite_changes_in_one_delivery"] += 1
            self.seq().detach(tgt)
            self.model_detach(tgt, e, inside=True)
            self.seq().attach(tgt)
            self.model_attach(tgt, e)
        elif act == "flicker_new":
            self.probes["opposite_changes_in_one_delivery"] += 1
            self.seq().attach(tgt)
            self.model_attach(tgt, e)
            self.seq().detach(tgt)
            self.model_detach(tgt, e, inside=True)
        else:
            self.seq().attach(tgt)
            self.model_attach(tgt, e)

    def model_attach(self, obs, during_event=None):
        if obs.oid in self.model_attached:
            return
        self.model_attached.append(obs.oid)
        if during_event is not None:
            obs.opt.add(during_event)

    def model_detach(self, obs, during_event=None, inside=False):
        if obs.oid not in self.model_attached:
            return
        self.model_attached.remove(obs.oid)
        obs.inflight_ok = self.current_params if inside else None
        if during_event is not None and obs.req and obs.req[-1] == during_event:
            obs.req.pop()
            obs.opt.add(during_event)

    def seq(self):
        return self._seq


def _make_obs_class():
    from mingus.midi.sequencer_observer import SequencerObserver

    class _Obs(SequencerObserver):
        def __init__(self, sim, oid):
            self.sim = sim
            self.oid = oid
            self.got = []  # (device index, kind, args)
            self.req = []
            self.opt = set()
            self.nnotif = 0
            self.armed = None
            self.inflight_ok = None  # the message object that was being delivered when this observer was detached/attached
            self.high = collections.Counter()

        def _rec(self, kind, args):
            self.got.append((len(self.sim.dev) - 1, kind, tuple(args)))
            self.sim.trace.ev("obs", self.oid, kind, [float(a) if isinstance(a, float) else a for a in args])

        def play_int_note_event(self, int_note, channel, velocity):
            self._rec("on", (int_note, channel, velocity))

        def stop_int_note_event(self, int_note, channel):
            self._rec("off", (int_note, channel))

        def cc_event(self, channel, control, value):
            self._rec("cc", (channel, control, value))

        def instr_event(self, channel, instr, bank):
            self._rec("instr", (channel, instr, bank))

        def sleep(self, seconds):
            self._rec("sleep", (seconds,))

        def notify(self, msg_type, params):
            sim = self.sim
            sim.current_params = params
            if self.oid not in sim.model_attached and params is not self.inflight_ok:
                # detached (or never attached) and this is not the message during which that happened
                sim.stray.append((self.oid, msg_type, len(sim.dev) - 1))
            SequencerObserver.notify(self, msg_type, params)
            if msg_type not in LOW:
                self.high[msg_type] += 1
            self.sim.on_notify(self, msg_type)

    return _Obs


Obs = None  # bound in execute (needs the SUT imported)


def _make_seq(sim):
    from mingus.midi.sequencer import Sequencer

    class SimSequencer(Sequencer):
        def play_event(self, note, channel, velocity):
            sim.device("on", (note, channel, velocity))

        def stop_event(self, note, channel):
            sim.device("off", (note, channel))

        def cc_event(self, channel, control, value):
            sim.device("cc", (channel, control, value))

        def instr_event(self, channel, instr, bank):
            sim.device("instr", (channel, instr, bank))

        def sleep(self, seconds):
            sim.device("sleep", (seconds,))

    return SimSequencer()


# ---------------------------------------------------------------------------
# expected event streams


def _close(actual, expected):
    try:
        a = Fraction(actual)
    except Exception:
        return False
    e = Fraction(expected)
    return abs(a - e) <= Fraction(1, 10 ** 9) * max(1, abs(e))


def expect_sequential(entries, bpm):
    """entries: model entries in playing order.  Returns (events, seconds, final bpm)."""
    ev = []
    total = Fraction(0)
    for e in entries:
        notes = e["notes"] or []
        for (name, octave, ch, vel) in notes:
            ev.append(("on", (score.pitch_of(name, octave) + 12, ch, vel)))
        if e.get("bpm") is not None:
            bpm = e["bpm"]
        s = Fraction(240) / Fraction(bpm) * e["len"]
        ev.append(("sleep", (s,)))
        total += s
        for (name, octave, ch, vel) in notes:
            ev.append(("off", (score.pitch_of(name, octave) + 12, ch)))
    return ev, total, bpm


def voice_boundaries(entries):
    t = Fraction(0)
    out = [t]
    for e in entries:
        t += e["len"]
        out.append(t)
    return out


def expect_parallel(voices, bpm):
    """voices: list of entry lists, all of the same total length.
    Returns (note_events: dict (ch,pitch)-> list of (kind, time, vel)), total seconds, final bpm, ok)
    ok False when two voices change tempo at the same instant (ambiguous)."""
    tm = score.TempoMap(bpm)
    instants = set()
    ok = True
    for v in voices:
        t = Fraction(0)
        for e in v:
            if e.get("bpm") is not None:
                if t in instants:
                    ok = False
                instants.add(t)
                tm.add(t, e["bpm"])
            t += e["len"]
    length = max(voice_boundaries(v)[-1] for v in voices)
    per = collections.defaultdict(list)
    for v in voices:
        t = Fraction(0)
        for e in v:
            for (name, octave, ch, vel) in e["notes"] or []:
                p = score.pitch_of(name, octave) + 12
                per[(ch, p)].append(("on", tm.seconds(t), vel))
                per[(ch, p)].append(("off", tm.seconds(t + e["len"]), None))
            t += e["len"]
    for k in per:
        per[k].sort(key=lambda x: (x[1], 0 if x[0] == "off" else 1))
    return per, tm.seconds(length), tm.final(length), ok


# ---------------------------------------------------------------------------
# execution


class Exec(object):
    def __init__(self, program):
        self.program = program
        self.cfg = program.get("cfg", {})
        self.trace = Trace()
        self.faults = collections.Counter()
        self.probes = collections.Counter()
        self.clauses = collections.Counter()
        self.failures = []
        self.sim = Sim(self.cfg.get("config", "A"), self.trace, self.faults, self.probes)
        self.world = world.World(self.trace, self.probes)
        self.shape = []
        self.api_calls = 0
        self.virtual_seconds = Fraction(0)
        if self.sim.config == "B":
            import mingus.midi.fluidsynth as fl

            SINK.target = self.sim
            fl.init("sim.sf2")
            self.sim._seq = fl.midi
            self.api = fl
        else:
            self.sim._seq = _make_seq(self.sim)
            self.api = self.sim._seq

    # ------------------------------------------------------------------
    def fail(self, clause, detail, **features):
        self.failures.append({"clause": clause, "detail": detail, "features": features})
        self.trace.ev("fail", clause, detail)

    def call(self, name, *args):
        """Call the API; returns (returned, exception, event slice)."""
        self.sim.sleeps_in_call = 0
        start = len(self.sim.dev)
        t0 = self.sim.now
        ret, exc = None, None
        try:
            ret = getattr(self.api, name)(*args)
        except SimBudgetExceeded as e:
            exc = e
            if kernel.wall_stall(e):
                self.stalled = True
        except Exception as e:
            exc = e
        self.api_calls += 1
        self.virtual_seconds += self.sim.now - t0
        evs = self.sim.dev[start:]
        self.trace.ev("call", name, type(exc).__name__ if exc else None, _jsonable(ret), len(evs))
        return ret, exc, evs, t0

    # ------------------------------------------------------------------
    def run(self):
        global Obs
        Obs = _make_obs_class()
        for i, op in enumerate(self.program["ops"]):
            kind = op["op"]
            self.op_index = i
            h = getattr(self, "do_" + kind, None)
            if h is not None:
                h(op)
            else:
                self.world.apply(op)
            if getattr(self, "stalled", False):
                break  # a call never returned: nothing after it can be judged
        if getattr(self, "stalled", False):
            return self.result()
        self.check_observers()
        return self.result()

    # -- observer ops -----------------------------------------------------
    def do_obs(self, op):
        o = Obs(self.sim, len(self.sim.observers))
        self.sim.observers.append(o)
        self.trace.ev("obs_new", o.oid)

    def _obs(self, i):
        if not self.sim.observers:
            return None
        return self.sim.observers[i % len(self.sim.observers)]

    def do_attach(self, op):
        o = self._obs(op["obs"])
        if o is None:
            return
        if o.oid in self.sim.model_attached:
            self.probes["attach_duplicate"] += 1
        self.sim.seq().attach(o)
        self.sim.model_attach(o)
        self.faults["churn_between"] += 1
        self.trace.ev("attach", o.oid)

    def do_detach(self, op):
        o = self._obs(op["obs"])
        if o is None:
            return
        if o.oid not in self.sim.model_attached:
            self.probes["detach_stranger"] += 1
        self.sim.seq().detach(o)
        self.sim.model_detach(o)
        self.faults["churn_between"] += 1
        self.trace.ev("detach", o.oid)

    def do_arm(self, op):
        o = self._obs(op["obs"])
        if o is None:
            return
        o.armed = {"k": max(1, op["k"]), "act": op["act"], "target": op.get("target", 0)}
        self.trace.ev("arm", o.oid, op["k"], op["act"])

    # -- simple calls -------------------------------------------------------
    def _note_events_check(self, name, evs, expected, exc, feats):
        self.clauses["C18.events"] += 1
        self.clauses["C18.values"] += 1
        if exc is not None:
            clause = "C18.stall" if isinstance(exc, SimBudgetExceeded) else "C18.events"
            self.fail(clause, "%s raised %s: %s" % (name, type(exc).__name__, exc), api=name, raised=type(exc).__name__, wall=str(exc).startswith("wall-clock"), **feats)
            return False
        got = [(k, a) for (k, a, t) in evs]
        if len(got) != len(expected) or any(g[0] != e[0] for g, e in zip(got, expected)):
            self.fail("C18.events", "%s: device saw %s, expected %s" % (name, _short(got), _short(expected)), api=name, **feats)
            return False
        ok = True
        for g, e in zip(got, expected):
            if g[0] == "sleep":
                if not _close(g[1][0], e[1][0]):
                    self.fail("C18.time", "%s: slept %r, expected %s" % (name, g[1][0], float(e[1][0])), api=name, **feats)
                    ok = False
                    break
            elif tuple(g[1]) != tuple(e[1]) or any(type(x) is not int for x in g[1]):
                self.fail("C18.values", "%s: event %s %r, expected %r" % (name, g[0], g[1], e[1]), api=name, **feats)
                ok = False
                break
        return ok

    def do_play_note(self, op):
        from mingus.containers.note import Note

        name, octave, ch, vel = op["note"]
        n = Note(name, octave, velocity=vel, channel=ch)
        which = "play_Note" if op.get("on", True) else "stop_Note"
        p = score.pitch_of(name, octave) + 12
        if op.get("on", True):
            ret, exc, evs, _ = self.call("play_Note", n, op.get("argch", 1), op.get("argvel", 100)) if not op.get("dflt") else self.call("play_Note", n)
            exp = [("on", (p, ch, vel))]
        else:
            ret, exc, evs, _ = self.call("stop_Note", n, op.get("argch", 1)) if not op.get("dflt") else self.call("stop_Note", n)
            exp = [("off", (p, ch))]
        self.shape.append(which)
        self._note_events_check(which, evs, exp, exc, {})

    def do_play_nc(self, op):
        from mingus.containers.note_container import NoteContainer

        specs = sorted([tuple(s) for s in op["notes"]], key=lambda s: score.pitch_of(s[0], s[1]))
        if len(set(score.pitch_of(s[0], s[1]) for s in specs)) != len(specs):
            return
        nc = NoteContainer([self.world.make_note(s) for s in op["notes"]])
        exp_on = [("on", (score.pitch_of(s[0], s[1]) + 12, s[2], s[3])) for s in specs]
        exp_off = [("off", (score.pitch_of(s[0], s[1]) + 12, s[2])) for s in specs]
        ret, exc, evs, _ = self.call("play_NoteContainer", nc, op.get("argch", 1), op.get("argvel", 100))
        self._note_events_check("play_NoteContainer", evs, exp_on, exc, {})
        ret, exc, evs, _ = self.call("stop_NoteContainer", nc, op.get("argch", 1))
        if exc is None and sorted((k, tuple(a)) for (k, a, t) in evs) == sorted(exp_off):
            exp_off = [(k, tuple(a)) for (k, a, t) in evs]  # any order of the stops of one chord
        self._note_events_check("stop_NoteContainer", evs, exp_off, exc, {})
        self.shape.append("nc%d" % len(specs))

    def do_cc(self, op):
        kind = op.get("kind", "control_change")
        ch, ctl, val = op["ch"], op["ctl"], op["val"]
        if kind == "control_change":
            ret, exc, evs, _ = self.call("control_change", ch, ctl, val)
        else:
            ctl = {"modulation": 1, "main_volume": 7, "pan": 10}[kind]
            ret, exc, evs, _ = self.call(kind, ch, val)
        self.clauses["C18.cc"] += 1
        invalid = ctl < 0 or ctl > 128 or val < 0 or val > 128
        if invalid:
            self.faults["cc_invalid"] += 1
        for b in (ctl, val):
            if b in (-1, 0, 128, 129):
                self.probes["cc_boundary_%d" % b] += 1
        self.shape.append("cc:%s:%s" % (kind, "bad" if invalid else "ok"))
        got = [(k, a) for (k, a, t) in evs]
        if exc is not None:
            self.fail("C18.cc", "%s(%r,%r,%r) raised %s" % (kind, ch, ctl, val, type(exc).__name__), api=kind, invalid=invalid)
        elif invalid:
            if ret is not False or got:
                self.fail("C18.cc", "%s(%r,%r,%r) out of range returned %r and emitted %s" % (kind, ch, ctl, val, ret, _short(got)), api=kind, invalid=True)
        else:
            if ret is not True or got != [("cc", (ch, ctl, val))]:
                self.fail("C18.cc", "%s(%r,%r,%r) returned %r and emitted %s" % (kind, ch, ctl, val, ret, _short(got)), api=kind, invalid=False)

    def do_set_instr(self, op):
        ret, exc, evs, _ = self.call("set_instrument", op["ch"], op["instr"], op.get("bank", 0))
        self.clauses["C18.instr"] += 1
        got = [(k, a) for (k, a, t) in evs]
        if exc is not None or got != [("instr", (op["ch"], op["instr"], op.get("bank", 0)))]:
            self.fail("C18.instr", "set_instrument(%r,%r,%r) emitted %s exc=%r" % (op["ch"], op["instr"], op.get("bank", 0), _short(got), exc), api="set_instrument")
        self.shape.append("set_instr")

    # -- balance over one composite call ------------------------------------
    def check_balance(self, name, evs, feats):
        self.clauses["C18.balance"] += 1
        sounding = set()
        for i, (k, a, t) in enumerate(evs):
            if k == "on":
                key = (a[1], a[0])
                if key in sounding:
                    self.fail("C18.balance", "%s: note %r started while already sounding (event %d of the call)" % (name, key, i), api=name, kind="double_start", **feats)
                    return
                sounding.add(key)
            elif k == "off":
                key = (a[1], a[0])
                if key not in sounding:
                    self.fail("C18.balance", "%s: note %r stopped but was not sounding (event %d of the call)" % (name, key, i), api=name, kind="stray_stop", **feats)
                    return
                sounding.discard(key)
        if sounding:
            self.fail("C18.balance", "%s: left sounding %s" % (name, sorted(sounding)), api=name, kind="hanging", **feats)

    # -- sequential composite calls ----------------------------------------
    def _sequential(self, name, args, entries, bpm0, feats):
        ret, exc, evs, t0 = self.call(name, *args)
        n_notes = sum(len(e["notes"] or []) for e in entries)
        if any(e["notes"] is None for e in entries):
            self.probes["rest_played"] += 1
        if any(e.get("bpm") is not None for e in entries):
            self.faults["tempo_jump"] += 1
        self.clauses["C18.events"] += 1
        self.shape.append("%s:%d:%d" % (name, len(entries), n_notes))
        if exc is not None:
            clause = "C18.stall" if isinstance(exc, SimBudgetExceeded) else "C18.events"
            self.fail(clause, "%s raised %s: %s" % (name, type(exc).__name__, exc), api=name, raised=type(exc).__name__, wall=str(exc).startswith("wall-clock"), **feats)
            return
        # "for every sounding note in order": the play events come in the order of the music
        want_on = [("on", (score.pitch_of(nm, o) + 12, ch, vel)) for e in entries for (nm, o, ch, vel) in (e["notes"] or [])]
        got_on = [(k, tuple(a)) for (k, a, t) in evs if k == "on"]
        if got_on != want_on or any(type(x) is not int for k, a in got_on for x in a):
            kind = "C18.values" if sorted(x[1][:2] for x in got_on) == sorted(x[1][:2] for x in want_on) and len(got_on) == len(want_on) and [x[1][:2] for x in got_on] == [x[1][:2] for x in want_on] else "C18.events"
            self.fail(kind, "%s: play events %s, the music has %s" % (name, _short(got_on), _short(want_on)), api=name, **feats)
            return
        self._compare_timeline(name, evs, [[entries]], bpm0, ret, feats)

    def do_play_bar(self, op):
        mb = self.world.pick(self.world.bars, op["bar"])
        if mb is None or not self.world.bar_consistent(mb):
            self.probes["skipped_precondition"] += 1
            return
        feats = {"tempo_jump": any(e.get("bpm") is not None for e in mb.entries)}
        if op.get("dflt"):
            self.probes["default_arguments_used"] += 1
            self._sequential("play_Bar", (mb.obj,), mb.entries, 120, feats)
        else:
            self._sequential("play_Bar", (mb.obj, op.get("ch", 1), op["bpm"]), mb.entries, op["bpm"], feats)

    def do_play_track(self, op):
        mt = self.world.pick(self.world.tracks, op["track"])
        if mt is None:
            return
        bars = [self.world.bars[i] for i in mt.bars]
        [self.world.bar_consistent(b) for b in bars]  # observation only (probe)
        if len(mt.obj.bars) != len(bars):
            self.probes["library_track_differs_from_what_was_built"] += 1  # never on the unchanged tree; judged by the model
        entries = [e for b in bars for e in b.entries]
        feats = {"tempo_jump": any(e.get("bpm") is not None for e in entries), "bars": len(bars)}
        if op.get("dflt"):
            self.probes["default_arguments_used"] += 1
            self._sequential("play_Track", (mt.obj,), entries, 120, feats)
        else:
            self._sequential("play_Track", (mt.obj, op.get("ch", 1), op["bpm"]), entries, op["bpm"], feats)

    # -- parallel composite calls --------------------------------------------
    def _voices_ok(self, voices_per_bar):
        """Preconditions the statement presupposes (see DESIGN): bars exactly
        full, equal length, channels of different voices disjoint, no pitch
        repeated inside a container (guaranteed by the builder)."""
        for bars in voices_per_bar:
            if not bars:
                return False
            full = [b for b in bars if b.entries]
            if not full:
                return False
            L = full[0].length
            for b in bars:
                if not self.world.bar_consistent(b):
                    return False
                if b.entries and (not b.is_exactly_full() or b.length != L):
                    return False
            if len(full) != len(bars):
                self.probes["empty_bar_in_parallel_playback"] += 1  # that voice is simply silent for the bar
        nvoices = len(voices_per_bar[0])
        chans = [set() for _ in range(nvoices)]
        for bars in voices_per_bar:
            for v, b in enumerate(bars):
                for e in b.entries:
                    for s in e["notes"] or []:
                        chans[v].add(s[2])
        for i in range(nvoices):
            for j in range(i + 1, nvoices):
                if chans[i] & chans[j]:
                    return False
        return True

    def _parallel(self, name, args, voices_per_bar, bpm0, instr_expected, feats):
        """voices_per_bar: list (per bar index) of lists of MBar (one per voice)."""
        ret, exc, evs, t0 = self.call(name, *args)
        self.clauses["C18.events"] += 1
        differ = False
        nested = True
        for bars in voices_per_bar:
            bs = [set(voice_boundaries(b.entries)) for b in bars]
            if any(x != bs[0] for x in bs):
                differ = True
            u = sorted(bs, key=len)
            for a, b in zip(u, u[1:]):
                if not a <= b:
                    nested = False
        rhythm = "identical" if not differ else ("nested" if nested else "crossing")
        feats = dict(feats, rhythms_differ=differ, rhythm=rhythm)
        if differ:
            self.probes["parallel_unequal_rhythm"] += 1
        if any(b.entries and b.entries[0]["notes"] is None for bars in voices_per_bar for b in bars):
            self.probes["rest_led_voice"] += 1
        tempo = any(e.get("bpm") is not None for bars in voices_per_bar for b in bars for e in b.entries)
        if tempo:
            self.faults["tempo_jump"] += 1
            if len(voices_per_bar[0]) > 1:
                self.probes["tempo_jump_in_parallel"] += 1
        feats["tempo_jump"] = tempo
        self.shape.append("%s:%s:%dv:%db%s" % (name, rhythm, len(voices_per_bar[0]), len(voices_per_bar), ":tempo" if tempo else ""))
        if exc is not None:
            clause = "C18.stall" if isinstance(exc, SimBudgetExceeded) else "C18.events"
            self.fail(clause, "%s raised %s: %s" % (name, type(exc).__name__, exc), api=name, raised=type(exc).__name__, wall=str(exc).startswith("wall-clock"), **feats)
            return
        # instrument announcements come first
        k = 0
        if instr_expected is not None:
            self.clauses["C18.instr"] += 1
            head = [(kk, a) for (kk, a, t) in evs[: len(instr_expected)]]
            # one change per track on its channel, before any note; their mutual order is not constrained
            if sorted(head) != sorted(instr_expected):
                self.fail("C18.instr", "%s: first events %s, expected instrument changes %s" % (name, _short(head), _short(instr_expected)), api=name, **feats)
                return
            k = len(instr_expected)
            if any(kk == "instr" for (kk, a, t) in evs[k:]):
                self.fail("C18.instr", "%s: more than one instrument change per track" % name, api=name, **feats)
        body = evs[k:]
        self._compare_timeline(name, body, [[b.entries for b in bars] for bars in voices_per_bar], bpm0, ret, feats)

    def _compare_timeline(self, name, body, voices_per_bar, bpm0, ret, feats):
        """body: device events of the playback part of one call.  voices_per_bar:
        list (per bar index) of lists (per voice) of entry lists.  Per (channel,
        pitch) the starts and stops must be the model's, each at the model's
        virtual time; the order of simultaneous events of different notes and the
        way the time is cut into sleeps are not constrained."""
        self.check_balance(name, body, feats)
        # model, bar after bar (tempo carries over)
        bpm = bpm0
        base = Fraction(0)
        exp_per = collections.defaultdict(list)
        ambiguous = False
        for voices in voices_per_bar:
            per, secs, fin, ok = expect_parallel(voices, bpm)
            if not ok:
                ambiguous = True
            for key, lst in per.items():
                for (kind, t, vel) in lst:
                    exp_per[key].append((kind, base + t, vel))
            base += secs
            bpm = fin
        if ambiguous:
            self.probes["skipped_ambiguous_tempo"] += 1
            return
        got_per = collections.defaultdict(list)
        clock = Fraction(0)
        for (kk, a, t) in body:
            if kk == "on":
                got_per[(a[1], a[0])].append(("on", clock, a[2]))
            elif kk == "off":
                got_per[(a[1], a[0])].append(("off", clock, None))
            elif kk == "sleep":
                try:
                    clock += Fraction(a[0])
                except Exception:
                    pass
            else:
                self.fail("C18.events", "%s: unexpected device event %s %r during playback" % (name, kk, a), api=name, **feats)
                return
        bad = None
        for key in sorted(set(exp_per) | set(got_per)):
            e, g = exp_per.get(key, []), got_per.get(key, [])
            if [x[0] for x in e] != [x[0] for x in g]:
                bad = ("C18.events", "%s: note (channel %d, pitch %d): device saw %s, the music has %s" % (name, key[0], key[1], [(x[0], round(float(x[1]), 6)) for x in g], [(x[0], round(float(x[1]), 6)) for x in e]))
                break
            for x, y in zip(e, g):
                if not _close(y[1], x[1]):
                    bad = ("C18.events", "%s: note (channel %d, pitch %d): %s at %.9f s, expected at %.9f s" % (name, key[0], key[1], x[0], float(y[1]), float(x[1])))
                    break
                if x[0] == "on" and x[2] != y[2]:
                    bad = ("C18.values", "%s: note (channel %d, pitch %d): velocity %r, expected %r" % (name, key[0], key[1], y[2], x[2]))
                    break
            if bad:
                break
        if bad:
            self.fail(bad[0], bad[1], api=name, **feats)
        self.clauses["C18.values"] += 1
        self.clauses["C18.time"] += 1
        if not _close(clock, base):
            self.fail("C18.time", "%s: slept %.9f s in total, the music lasts %.9f s" % (name, float(clock), float(base)), api=name, **feats)
        self.clauses["C18.return"] += 1
        if not (isinstance(ret, dict) and ret.get("bpm") == bpm):
            self.fail("C18.return", "%s returned %r, final tempo is %r" % (name, ret, bpm), api=name, **feats)

    def do_play_bars(self, op):
        if not self.world.bars or not op["bars"]:
            return
        idx = []
        for i in op["bars"]:
            j = i % len(self.world.bars)
            if j not in idx:
                idx.append(j)
        bars = [self.world.bars[j] for j in idx]
        if not self._voices_ok([bars]):
            self.probes["skipped_precondition"] += 1
            return
        chs = (op.get("chs") or [1] * len(bars))[: len(bars)]
        chs += [1] * (len(bars) - len(chs))
        if op.get("dflt"):
            self.probes["default_arguments_used"] += 1
            self._parallel("play_Bars", ([b.obj for b in bars], chs), [bars], 120, None, {"voices": len(bars)})
        else:
            self._parallel("play_Bars", ([b.obj for b in bars], chs, op["bpm"]), [bars], op["bpm"], None, {"voices": len(bars)})

    def _tracks_voices(self, tracks):
        n = len(tracks[0].bars)
        if n == 0 or any(len(t.bars) != n for t in tracks):
            return None
        if any(len(t.obj.bars) != n for t in tracks):
            self.probes["library_track_differs_from_what_was_built"] += 1  # never on the unchanged tree; judged by the model
        return [[self.world.bars[t.bars[i]] for t in tracks] for i in range(n)]

    def _instr_expected(self, tracks, chs):
        from mingus.containers.instrument import MidiInstrument

        out = []
        for t, ch in zip(tracks, chs):
            prog = 1
            if t.instr[0] == "midi" and getattr(t, "pending_instr", None) is None:
                if t.instr[1] in MidiInstrument.names:
                    prog = MidiInstrument.names.index(t.instr[1])
                else:
                    self.probes["midi_instrument_unknown_name"] += 1
            out.append(("instr", (ch, prog, 0)))
        return out

    def do_play_tracks(self, op):
        if not self.world.tracks or not op["tracks"]:
            return
        idx = []
        for i in op["tracks"]:
            j = i % len(self.world.tracks)
            if j not in idx:
                idx.append(j)
        tracks = [self.world.tracks[j] for j in idx]
        vpb = self._tracks_voices(tracks)
        if vpb is None or not self._voices_ok(vpb):
            self.probes["skipped_precondition"] += 1
            return
        chs = (op.get("chs") or [])[: len(tracks)]
        chs += list(range(len(chs) + 1, len(tracks) + 1))
        if op.get("dflt"):
            self.probes["default_arguments_used"] += 1
            self._parallel("play_Tracks", ([t.obj for t in tracks], chs), vpb, 120, self._instr_expected(tracks, chs), {"voices": len(tracks)})
        else:
            self._parallel("play_Tracks", ([t.obj for t in tracks], chs, op["bpm"]), vpb, op["bpm"], self._instr_expected(tracks, chs), {"voices": len(tracks)})

    def do_play_comp(self, op):
        mc = self.world.pick(self.world.comps, op["comp"])
        if mc is None or not mc.tracks:
            return
        tracks = [self.world.tracks[i] for i in mc.tracks]
        if len(mc.obj.tracks) != len(tracks):
            self.probes["skipped_precondition"] += 1
            return
        vpb = self._tracks_voices(tracks)
        if vpb is None or not self._voices_ok(vpb):
            self.probes["skipped_precondition"] += 1
            return
        chs = op.get("chs")
        if chs is None:
            exp_chs = [x + 1 for x in range(len(tracks))]
            self.probes["composition_default_channels"] += 1
        else:
            chs = list(chs)[: len(tracks)]
            chs += list(range(len(chs) + 1, len(tracks) + 1))
            exp_chs = chs
        if op.get("dflt") and chs is None:
            self.probes["default_arguments_used"] += 1
            self._parallel("play_Composition", (mc.obj,), vpb, 120, self._instr_expected(tracks, exp_chs), {"voices": len(tracks)})
        else:
            self._parallel("play_Composition", (mc.obj, chs, op["bpm"]), vpb, op["bpm"], self._instr_expected(tracks, exp_chs), {"voices": len(tracks)})

    # -- observers ------------------------------------------------------------
    def check_observers(self):
        sim = self.sim
        if not sim.observers:
            return
        self.clauses["C18.observers"] += 1
        if sim.stray:
            oid, mt, e = sim.stray[0]
            self.fail("C18.observers", "observer %d was sent message type %d (after device event #%d) although it was detached before that message (%d such deliveries); churn=%s" % (oid, mt, e, len(sim.stray), sim.churn_log[:3]), kind="after_detach", churn_inside=sim.churn_inside_happened, low_level=mt in LOW)
        for o in sim.observers:
            idxs = [g[0] for g in o.got]
            feats = {"churn_inside": sim.churn_inside_happened}
            if any(b <= a for a, b in zip(idxs, idxs[1:])):
                self.fail("C18.observers", "observer %d received a device event more than once or out of order: indices %s" % (o.oid, idxs[:40]), kind="duplicate", **feats)
                return
            got = set(idxs)
            req = set(o.req)
            missing = sorted(req - got)
            extra = sorted(got - req - o.opt)
            if missing:
                e = missing[0]
                self.fail("C18.observers", "observer %d, attached at that time, did not receive device event #%d %s%r (missed %d in all); churn=%s" % (o.oid, e, sim.dev[e][0], sim.dev[e][1], len(missing), sim.churn_log[:3]), kind="missing", **feats)
                return
            if extra:
                e = extra[0]
                self.fail("C18.observers", "observer %d received device event #%d %s%r while not attached (%d such); churn=%s" % (o.oid, e, sim.dev[e][0], sim.dev[e][1], len(extra), sim.churn_log[:3]), kind="extra", **feats)
                return
            for (i, kind, args) in o.got:
                dk, da, _ = sim.dev[i]
                if dk != kind or tuple(da) != tuple(args):
                    self.fail("C18.observers", "observer %d was told %s%r, the device got %s%r" % (o.oid, kind, args, dk, da), kind="params", **feats)
                    return

    # ------------------------------------------------------------------
    def result(self):
        sim = self.sim
        nontrivial = self.api_calls > 0 and len(sim.dev) > 0
        return {
            "failures": self.failures,
            "faults": dict(self.faults),
            "probes": dict(self.probes),
            "clauses": dict(self.clauses),
            "ops": len(self.program["ops"]),
            "shape": "|".join(self.shape) + "|cfg" + sim.config + "|churn:" + ",".join("%s@%s" % (c[1], c[3]) for c in sim.churn_log),
            "nontrivial": nontrivial,
            "sim": {"virtual_seconds": float(self.virtual_seconds), "device_events": len(sim.dev), "api_calls": self.api_calls, "config_" + sim.config: 1},
            "digest": self.trace.digest(),
            "states": [],
        }


def _jsonable(x):
    try:
        import json

        json.dumps(x)
        return x
    except Exception:
        return repr(type(x))


def _short(lst, n=14):
    s = [(k, tuple(float(x) if isinstance(x, Fraction) else x for x in a)) for (k, a) in lst[:n]]
    return "%s%s" % (s, "..." if len(lst) > n else "")


def execute(prop, program):
    return Exec(program).run()


# ---------------------------------------------------------------------------
# generation (seeded; swarm-style configuration drawn first)

ALLOW_SETS = [[], ["dot"], ["t3"], ["dot", "t3"], ["t5"], ["t7"], ["dot", "ddot"], ["dot", "ddot", "t3", "t5", "t7"]]
CC_BIASED = [-1, 0, 1, 127, 128, 129]
INSTR_NAMES = ["Acoustic Grand Piano", "Violin", "Flute", "Gunshot", "Cello", "Church Organ"]


def _gen_entries(rng, syms, channel, rest_p, lead_rest, bpm_p, empty_nc_p=0.1):
    out = []
    for i, sym in enumerate(syms):
        r = rng.random()
        if (i == 0 and lead_rest) or r < rest_p:
            e = {"notes": None, "v": sym}
            if rng.random() < empty_nc_p:
                e["empty_nc"] = True
                if rng.random() < max(bpm_p, 0.15) and bpm_p > 0:
                    e["bpm"] = rng.choice([30, 60, 90, 121, 240, rng.randrange(20, 401)])  # a tempo mark on a silent beat
        else:
            e = {"notes": world.gen_chord(rng, channel), "v": sym}
            if rng.random() < bpm_p:
                e["bpm"] = rng.choice([20, 30, 60, 90, 120, 121, 180, 240, 400, rng.randrange(20, 401), 67.5, 90.25, rng.randrange(80, 800) / 4.0])
        out.append(e)
    return out


def _emit_bar(ops, key, meter, entries):
    ops.append({"op": "bar", "key": key, "meter": list(meter)})
    idx = sum(1 for o in ops if o["op"] == "bar") - 1
    for e in entries:
        o = {"op": "place", "bar": idx, "notes": e["notes"], "v": e["v"]}
        if e.get("bpm") is not None:
            o["bpm"] = e["bpm"]
        if e.get("empty_nc"):
            o["empty_nc"] = True
        ops.append(o)
    return idx


def _refine(rng, syms, allow, p=0.5):
    """Split some plain power-of-two entries further: boundaries stay a superset."""
    out = []
    for s in syms:
        if s[1] == 0 and s[2] == 1 and not isinstance(s[0], list) and s[0] * 2 <= 64 and rng.random() < p:
            out += score.split_span(rng, score.sym_length(s), rng.choice([1, 1, 2]), set(allow) | {"forced"})
        else:
            out.append(s)
    return out


def _parallel_fills(rng, meter, nvoices, rhythm):
    depth = rng.choice([0, 1, 1, 2, 2, 3])
    allow = set(rng.choice(ALLOW_SETS))
    base = score.fill_bar(rng, meter[0], meter[1], depth, allow, max_entries=12)
    if rhythm == "identical":
        return [list(base) for _ in range(nvoices)]
    if rhythm == "nested":
        fills = [base]
        for _ in range(nvoices - 1):
            f = _refine(rng, fills[-1], allow, 0.6)
            if len(f) > 14:
                f = fills[-1]
            fills.append(f)
        rng.shuffle(fills)
        return fills
    fills = []
    for _ in range(nvoices):
        a = set(rng.choice(ALLOW_SETS))
        fills.append(score.fill_bar(rng, meter[0], meter[1], rng.choice([0, 1, 2, 2]), a, max_entries=12))
    return fills


def generate(rng, prop, tier):
    cfg = {
        "config": "A" if rng.random() < 0.8 else "B",
        "plan": rng.choice(["solo", "bar", "bar", "track", "bars", "bars", "bars", "tracks", "tracks", "comp", "comp", "mixed"]),
        "churn_inside_p": rng.choice([0.0, 0.0, 0.3, 0.6, 1.0]),
        "churn_between_p": rng.choice([0.0, 0.2, 0.5]),
        "rest_p": rng.choice([0.0, 0.1, 0.25, 0.5]),
        "bpm_p": rng.choice([0.0, 0.0, 0.1, 0.3]),
        "n_obs": rng.choice([0, 1, 1, 2, 2, 3]),
    }
    ops = []
    nobs = cfg["n_obs"]
    for i in range(nobs):
        ops.append({"op": "obs"})
    for i in range(nobs):
        if rng.random() < 0.8:
            ops.append({"op": "attach", "obs": i})
    if nobs and rng.random() < 0.2:
        ops.append({"op": "attach", "obs": rng.randrange(nobs)})  # duplicate attach

    def churn_between():
        if nobs and rng.random() < cfg["churn_between_p"]:
            ops.append({"op": rng.choice(["attach", "detach"]), "obs": rng.randrange(nobs + 1)})

    def churn_inside():
        if nobs and rng.random() < cfg["churn_inside_p"]:
            ops.append(
                {
                    "op": "arm",
                    "obs": rng.randrange(nobs),
                    "k": rng.choice([1, 1, 2, 3, 4, 5, 6, 8, 10, 13, 17, 25, 40]),
                    "act": rng.choice(["detach_self", "detach_self", "detach_other", "attach_new", "attach_dup", "reattach_self", "reattach_other", "flicker_new"]),
                    "target": rng.randrange(4),
                }
            )

    def bpm():
        return rng.choice([60, 120, 120, 90, 30, 240, rng.randrange(20, 401), 72.5, rng.randrange(40, 800) / 4.0])

    def solo_ops(n):
        for _ in range(n):
            churn_between()
            churn_inside()
            r = rng.random()
            if r < 0.25:
                note = world.gen_note(rng)
                d = rng.random() < 0.2
                ops.append({"op": "play_note", "note": note, "on": True, "argch": rng.randrange(16), "argvel": rng.randrange(128), "dflt": d})
                ops.append({"op": "play_note", "note": note, "on": False, "argch": rng.randrange(16), "dflt": d})
            elif r < 0.45:
                ops.append({"op": "play_nc", "notes": world.gen_chord(rng), "argch": rng.randrange(16), "argvel": rng.randrange(128)})
            elif r < 0.85:
                kind = rng.choice(["control_change", "control_change", "modulation", "main_volume", "pan"])
                pick = lambda: rng.choice(CC_BIASED) if rng.random() < 0.6 else rng.randrange(-5, 135)
                ops.append({"op": "cc", "kind": kind, "ch": rng.randrange(16), "ctl": pick(), "val": pick()})
            else:
                ops.append({"op": "set_instr", "ch": rng.randrange(16), "instr": rng.randrange(128), "bank": rng.choice([0, 0, 1, 5])})

    def one_bar(full=True):
        meter = rng.choice(world.METERS)
        key = rng.choice(world.ALL_KEYS)
        allow = set(rng.choice(ALLOW_SETS))
        syms = score.fill_bar(rng, meter[0], meter[1], rng.choice([0, 1, 2, 3]), allow, max_entries=12)
        if not full and len(syms) > 1:
            syms = syms[: rng.randrange(0 if rng.random() < 0.1 else 1, len(syms) + 1)]  # now and then an empty bar
        entries = _gen_entries(rng, syms, None if rng.random() < 0.5 else rng.randrange(16), cfg["rest_p"], rng.random() < 0.15, cfg["bpm_p"])
        return _emit_bar(ops, key, meter, entries)

    def plan_bar():
        for _ in range(rng.choice([1, 1, 2])):
            b = one_bar(full=rng.random() < 0.7)
            churn_between()
            churn_inside()
            ops.append({"op": "play_bar", "bar": b, "ch": rng.randrange(16), "bpm": bpm(), "dflt": rng.random() < 0.12})

    def plan_track():
        ops.append({"op": "track", "instr": _gen_instr(rng), "name": None})
        t = sum(1 for o in ops if o["op"] == "track") - 1
        for _ in range(rng.choice([1, 2, 2, 3, 4])):
            b = one_bar(full=True)
            ops.append({"op": "tadd", "track": t, "bar": b})
            if rng.random() < 0.06:
                ops.append({"op": "tadd", "track": t, "bar": b, "again": True})
            if rng.random() < 0.06:
                ops.append({"op": "setnote", "bar": b, "entry": rng.randrange(8), "pos": rng.randrange(5), "note": world.gen_note(rng)})
            if rng.random() < 0.05:
                ops.append({"op": "unison", "bar": b, "entry": rng.randrange(8), "ch": rng.randrange(16)})
            if rng.random() < 0.05:
                ops.append({"op": "transpose", "level": rng.choice(["bar", "nc"]), "ref": b, "entry": rng.randrange(8), "interval": rng.choice(TRANSPOSE_BY), "up": rng.random() < 0.6})
            if rng.random() < 0.04:
                ops.append({"op": "peek", "what": rng.choice(["bar", "nc"]), "ref": b, "entry": rng.randrange(8), "n": rng.choice([1, 1, 2])})
        if rng.random() < 0.06:
            ops.append({"op": "transpose", "level": "track", "ref": t, "interval": rng.choice(TRANSPOSE_BY), "up": rng.random() < 0.6})
        if rng.random() < 0.08:
            ops.append({"op": "peek", "what": "track", "ref": t, "n": rng.choice([1, 1, 2])})
        churn_between()
        churn_inside()
        ops.append({"op": "play_track", "track": t, "ch": rng.randrange(16), "bpm": bpm(), "dflt": rng.random() < 0.12})

    def parallel_material(nvoices, nbars):
        """Returns per voice the list of bar indices."""
        meter = rng.choice(world.METERS[:13])
        rhythm = rng.choice(["identical", "nested", "crossing", "crossing"])
        chans = rng.sample(range(16), nvoices)
        tempo_voice = rng.randrange(nvoices)
        per_voice = [[] for _ in range(nvoices)]
        for bi in range(nbars):
            fills = _parallel_fills(rng, meter, nvoices, rhythm)
            key = rng.choice(world.ALL_KEYS)
            empty_voice = rng.randrange(nvoices) if nvoices > 1 and rng.random() < 0.1 else None
            for v in range(nvoices):
                if v == empty_voice:
                    per_voice[v].append(_emit_bar(ops, key, meter, []))  # an empty bar: this voice is silent
                    continue
                whole_rest = rng.random() < 0.06
                entries = _gen_entries(rng, fills[v], chans[v], 1.0 if whole_rest else cfg["rest_p"], rng.random() < 0.15, cfg["bpm_p"] if v == tempo_voice else 0.0)
                per_voice[v].append(_emit_bar(ops, key, meter, entries))
        return per_voice, chans

    def plan_bars():
        nv = rng.choice([1, 2, 2, 2, 3, 3, 4])
        per_voice, chans = parallel_material(nv, 1)
        churn_between()
        churn_inside()
        ops.append({"op": "play_bars", "bars": [pv[0] for pv in per_voice], "chs": chans, "bpm": bpm(), "dflt": rng.random() < 0.12})

    def plan_tracks(comp):
        nv = rng.choice([1, 2, 2, 3, 4])
        nb = rng.choice([1, 1, 2, 3])
        per_voice, chans = parallel_material(nv, nb)
        tidx = []
        for v in range(nv):
            ins = _gen_instr(rng)
            late = ins[0] != "none" and rng.random() < 0.3
            ops.append({"op": "track", "instr": ins, "name": None, "late": late})
            t = sum(1 for o in ops if o["op"] == "track") - 1
            tidx.append(t)
            for b in per_voice[v]:
                ops.append({"op": "tadd", "track": t, "bar": b})
                if rng.random() < 0.04:
                    ops.append({"op": "setnote", "bar": b, "entry": rng.randrange(8), "pos": rng.randrange(5), "note": world.gen_note(rng, chans[v])})
            if late:
                ops.append({"op": "setinstr", "track": t})
            if rng.random() < 0.05:
                lvl = rng.choice(["track", "bar", "nc"])
                ops.append({"op": "transpose", "level": lvl, "ref": t if lvl == "track" else rng.choice(per_voice[v]), "entry": rng.randrange(8), "interval": rng.choice(TRANSPOSE_BY), "up": rng.random() < 0.6})
            if rng.random() < 0.06:
                ops.append({"op": "peek", "what": "track", "ref": t, "n": rng.choice([1, 1, 2])})
        churn_between()
        if comp:
            ops.append({"op": "comp"})
            c = sum(1 for o in ops if o["op"] == "comp") - 1
            for t in tidx:
                ops.append({"op": "cadd", "comp": c, "track": t})
            churn_inside()
            ops.append({"op": "play_comp", "comp": c, "chs": None if rng.random() < 0.5 else rng.sample(range(16), nv), "bpm": bpm(), "dflt": rng.random() < 0.2})
        else:
            churn_inside()
            chs = rng.sample(range(16), nv)
            if nv > 1 and rng.random() < 0.3:
                chs[rng.randrange(1, nv)] = chs[0]  # two tracks announced on the same channel
            ops.append({"op": "play_tracks", "tracks": tidx, "chs": chs, "bpm": bpm(), "dflt": rng.random() < 0.12})

    plan = cfg["plan"]
    if plan == "solo":
        solo_ops(rng.randrange(2, 9))
    elif plan == "bar":
        plan_bar()
    elif plan == "track":
        plan_track()
    elif plan == "bars":
        plan_bars()
    elif plan == "tracks":
        plan_tracks(False)
    elif plan == "comp":
        plan_tracks(True)
    else:
        for _ in range(rng.choice([2, 3])):
            rng.choice([lambda: solo_ops(2), plan_bar, plan_track, plan_bars, lambda: plan_tracks(rng.random() < 0.5)])()
    if rng.random() < 0.3:
        solo_ops(rng.randrange(1, 3))
    ops = world.sprinkle_theory(rng, ops)
    return {"prop": prop, "cfg": cfg, "ops": ops}


def _gen_instr(rng):
    r = rng.random()
    if r < 0.3:
        return ["none"]
    if r < 0.4:
        return ["plain"]
    if r < 0.5:
        return ["piano"]
    if r < 0.85:
        name = rng.choice(INSTR_NAMES)
        from mingus.containers.instrument import MidiInstrument

        return ["midi", name, MidiInstrument.names.index(name)]
    return ["midi", rng.choice(["Theremin", "", "piano"]), None]


def simplify_op(prop, op):
    out = []
    k = op["op"]
    if k == "place":
        if op.get("notes"):
            if len(op["notes"]) > 1:
                out.append(dict(op, notes=op["notes"][:1]))
            simp = [[("C" if i == 0 else n[0]), (4 if i == 0 else n[1]), n[2], 64] for i, n in enumerate(op["notes"])]
            out.append(dict(op, notes=simp))
        if op.get("bpm") is not None:
            o = dict(op)
            del o["bpm"]
            out.append(o)
        if op.get("empty_nc"):
            o = dict(op)
            del o["empty_nc"]
            out.append(o)
    elif k == "bar":
        out.append(dict(op, key="C"))
    elif k in ("play_bar", "play_track", "play_bars", "play_tracks", "play_comp"):
        if op.get("bpm") != 120:
            out.append(dict(op, bpm=120))
        if k == "play_comp" and op.get("chs") is not None:
            out.append(dict(op, chs=None))
    elif k == "track":
        if op.get("instr") != ["none"]:
            out.append(dict(op, instr=["none"]))
    elif k == "arm":
        if op["k"] > 1:
            out.append(dict(op, k=op["k"] - 1))
            out.append(dict(op, k=1))
    elif k == "play_nc":
        if len(op["notes"]) > 1:
            out.append(dict(op, notes=op["notes"][:1]))
    return out


TRANSPOSE_BY = ["2", "3", "b3", "4", "5", "#4", "6", "b7", "7", "1", "#1", "b2"]


def tiers(prop):
    return {"quick": 16000, "thorough": 800000}


def legs(prop, tier):
    return []


def describe(prop):
    return {
        "rule": "Each run is one seeded program: world-building ops (bars filled exactly from a symbolic value vocabulary, tracks, compositions), observer attach/detach/arm ops and sequencer API calls, executed on one sequencer under a virtual clock and a recording synthesiser. A run is non-trivial when at least one API call produced device events. Distinct = distinct run shape: (sequence of API-call kinds with rhythm class, voice count, bar count, tempo flag; configuration A/B; churn action and the message type it landed on).",
        "state_measure": "not used for C18 (shapes are the measure)",
        "fault_kinds": ["churn_between", "churn_inside", "cc_invalid", "tempo_jump"],
        "probes": [
            "theory_chatter_ops",
            "theory_chatter_call_refused",
            "theory_chatter_call_cut_short",
            "music_transposed_after_building",
            "transposition_not_semitone_exact",
            "iteration_left_early_before_use",
            "unison_on_two_channels_in_one_container",
            "empty_bar_in_parallel_playback",
            "library_bar_differs_from_what_was_built",
            "library_track_differs_from_what_was_built",
            "parallel_unequal_rhythm",
            "rest_led_voice",
            "tempo_jump_in_parallel",
            "churn_between_start_and_stop",
            "churn_mid_chord_or_note_edge",
            "churn_during_instrument_announcement",
            "churn_on_high_level_message",
            "churn_by_first_of_several",
            "opposite_changes_in_one_delivery",
            "cc_boundary_-1",
            "cc_boundary_0",
            "cc_boundary_128",
            "cc_boundary_129",
            "midi_instrument_unknown_name",
            "composition_default_channels",
            "default_arguments_used",
            "empty_bar_in_parallel_playback",
            "instrument_attached_late",
            "same_bar_object_added_again",
            "container_not_ascending_after_item_assignment",
            "attach_duplicate",
            "detach_stranger",
            "rest_played",
            "builder_refused",
            "skipped_precondition",
            "skipped_ambiguous_tempo",
        ],
        "clauses": ["C18.balance", "C18.events", "C18.values", "C18.time", "C18.return", "C18.instr", "C18.observers", "C18.cc", "C18.stall"],
        "components_real": [
            "mingus.midi.sequencer.Sequencer (all methods)",
            "mingus.midi.sequencer_observer.SequencerObserver.notify",
            "mingus.midi.fluidsynth.FluidSynthSequencer and module-level wrappers (config B, ~20% of runs)",
            "mingus.containers Note/NoteContainer/Bar/Track/Composition/Instrument",
        ],
        "components_stub": ["synthesiser (recording SimSynth / stub mingus.midi.pyfluidsynth)", "clock (virtual; time.sleep of mingus.midi.fluidsynth replaced)", "observer bodies (recording SequencerObserver subclasses that can change membership during delivery)"],
        "assumptions": [
            "bars played together are exactly full and of equal length; tracks played together have equally many bars (checked from the model before the call, otherwise the call is skipped and counted as skipped_precondition)",
            "notes of different parallel voices carry different channels and no container repeats a pitch",
            "at most one parallel voice changes the tempo at a given instant",
            "time is compared with relative tolerance 1e-9; the order of simultaneous events of different voices is not constrained",
            "a MidiInstrument with a known name has instrument_nr equal to the index of the name, so both readings of 'the MIDI instrument's program' agree",
            "exceptions from the device hooks and cancellation during sleep are not injected (the statement promises nothing about them)",
        ],
    }


def _merge_candidates(ops):
    """Structural simplifications that keep bars exactly full: merge a complete
    group of adjacent placements of one bar into a single placement."""
    # positions of place ops per bar index, in order
    nb = 0
    per = {}
    for i, o in enumerate(ops):
        if o["op"] == "bar":
            nb += 1
        elif o["op"] == "place" and nb:
            per.setdefault(o["bar"] % nb, []).append(i)
    for b, idxs in per.items():
        for a in range(len(idxs)):
            for k, cond in ((2, "pair"), (3, "t3"), (5, "t5"), (7, "t7")):
                grp = idxs[a : a + k]
                if len(grp) != k or grp != list(range(grp[0], grp[0] + k)):
                    continue
                syms = [ops[i]["v"] for i in grp]
                total = score.total_length(syms)
                inv = 1 / total
                if inv.denominator != 1 and inv.numerator != 1:
                    continue
                if cond == "pair":
                    pass
                elif not all(s == syms[0] and s[2] == {"t3": 3, "t5": 5, "t7": 7}[cond] for s in syms):
                    continue
                merged = dict(ops[grp[0]])
                merged["v"] = [score._b(inv), 0, 1, 1]
                yield ops[: grp[0]] + [merged] + ops[grp[0] + k :]


def simplify_program(prop, ops):
    # drop one voice from a parallel call
    for i, o in enumerate(ops):
        for key in ("bars", "tracks"):
            if o["op"] in ("play_bars", "play_tracks") and key in o and len(o[key]) > 1:
                for j in range(len(o[key])):
                    n = dict(o)
                    n[key] = o[key][:j] + o[key][j + 1 :]
                    if o.get("chs"):
                        n["chs"] = o["chs"][:j] + o["chs"][j + 1 :]
                    yield ops[:i] + [n] + ops[i + 1 :]
    for c in _merge_candidates(ops):
        yield c
