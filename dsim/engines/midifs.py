# -*- coding: utf-8 -*-
"""C16 / C17 engine: the MIDI writer and reader on a simulated disk.

Real code: mingus.midi.midi_file_out (five writers + MidiFile), midi_track
.MidiTrack, midi_file_in (all parsers + MIDI_to_Composition), the containers
and the stdlib's io.BufferedWriter / io.BufferedReader.  Stubs: the disk
(dsim.simfs) and print.
"""
from __future__ import annotations

import collections
import io
import json
from fractions import Fraction

from .. import kernel, score, simfs, smf, world
from ..kernel import SimBudgetExceeded, Trace

ENGINE_ID = 16
NAME = "midifs"

SF = {}
for i, k in enumerate(world.MAJOR_KEYS):
    SF[k] = (i - 7, 0)
for i, k in enumerate(world.MINOR_KEYS):
    SF[k] = (i - 7, 1)


def preload(prop):
    kernel.import_sut()
    import mingus.containers  # noqa
    import mingus.midi.midi_file_in  # noqa
    import mingus.midi.midi_file_out  # noqa
    import mingus.midi.midi_track  # noqa


def key_class(k):
    if k == "C":
        return "C"
    if k[0].islower():
        return "minor"
    if len(k) > 1:
        return "major_accidental"
    return "major_natural"


# ---------------------------------------------------------------------------
# expected content of one track chunk


def expect_track(tr, repeat):
    ons, offs, tsigs, ksigs = [], [], [], []
    tick = 0
    rep_len = None
    for rep in range(repeat + 1):
        for bar in tr["bars"]:
            if bar.get("hasmeta", True):
                n, u = bar["meter"]
                tsigs.append((tick, n, u.bit_length() - 1))
                ksigs.append((tick,) + SF[bar["key"]])
            for e in bar["entries"]:
                for (name, octave, ch, vel) in e["notes"] or []:
                    p = score.pitch_of(name, octave) + 12
                    ons.append((tick, ch, p, vel))
                    offs.append((tick + e["ticks"], ch, p))
                tick += e["ticks"]
        if rep == 0:
            rep_len = tick
    first = None
    for bar in tr["bars"]:
        for e in bar["entries"]:
            if e["notes"]:
                first = e["notes"][0]
                break
        if first:
            break
    return {"ons": ons, "offs": offs, "tsigs": tsigs, "ksigs": ksigs, "rep_len": rep_len, "first_note": first}


def normal_form(entries):
    """entries: list of (ticks, frozenset(pitches)).  Adjacent rests merged,
    trailing rests dropped."""
    out = []
    for t, ps in entries:
        if not ps and out and not out[-1][1]:
            out[-1] = (out[-1][0] + t, ps)
        else:
            out.append((t, ps))
    while out and not out[-1][1]:
        out.pop()
    return out


# ---------------------------------------------------------------------------


class Exec(object):
    def __init__(self, prop, program):
        self.prop = prop
        self.program = program
        self.cfg = program.get("cfg", {})
        self.trace = Trace()
        self.faults = collections.Counter()
        self.probes = collections.Counter()
        self.clauses = collections.Counter()
        self.failures = []
        self.shape = []
        self.disk = simfs.SimDisk(self.trace, self.faults)
        self.disk.bufsize = self.cfg.get("bufsize", io.DEFAULT_BUFFER_SIZE)
        simfs.install(self.disk)
        self.world = world.World(self.trace, self.probes)
        self.written = {}  # path -> model of the last write that reported success (None = unknown content)
        self.flipped = {}
        self.reader = None
        self.written_objects = {}
        self.file_ops = 0
        self.ticks = 0

    def fail(self, clause, detail, **features):
        if not clause.startswith(self.prop + "."):
            # the writer's rules are C16's; inside a C17 history a failing write only
            # means there is nothing to read back (each rule is judged by one property)
            self.probes["other_property_rule_failed"] += 1
            self.trace.ev("not_judged_here", clause)
            return
        self.failures.append({"clause": clause, "detail": detail, "features": features})
        self.trace.ev("fail", clause, detail)

    def do_leg(self, op):
        r = run_leg(self.prop, op.get("tier", "quick"), 0, op["name"])
        for f in r.get("failures", []):
            self.failures.append({"clause": f["clause"], "detail": f["detail"], "features": f["features"]})
        self.trace.ev("leg", op["name"], len(r.get("failures", [])))
        self.file_ops += 1

    def run(self):
        try:
            for i, op in enumerate(self.program["ops"]):
                h = getattr(self, "do_" + op["op"], None)
                if h is not None:
                    h(op)
                else:
                    self.world.apply(op)
                if getattr(self, "stalled", False):
                    break
            return self.result()
        finally:
            self.disk.cleanup()

    # -- models of what gets written -----------------------------------------
    def _bar_model(self, mb):
        return {
            "key": mb.key,
            "meter": list(mb.meter),
            "hasmeta": True,
            "entries": [{"ticks": score.ticks_of(e["len"]), "len": e["len"], "notes": e["notes"], "whole": score.is_whole_ticks(e["len"])} for e in mb.entries],
        }

    def _track_model(self, mt):
        bars = [self.world.bars[i] for i in mt.bars]
        [self.world.bar_consistent(b) for b in bars]  # observation only (probe)
        if len(mt.obj.bars) != len(bars):
            self.probes["library_track_differs_from_what_was_built"] += 1  # never on the unchanged tree; judged by the model
        instr = mt.instr if getattr(mt, "pending_instr", None) is None else ["none"]  # not attached (yet): no instrument
        return {"name": mt.name if mt.name is not None else "Untitled", "named": True, "instr": instr, "bars": [self._bar_model(b) for b in bars]}

    def _resolve(self, op):
        """-> (library object, model dict) or (None, None)"""
        what = op["what"]
        if what == "note":
            spec = op["note"]
            obj = self.world.make_note(spec)
            tr = {"named": False, "instr": ["none"], "bars": [{"hasmeta": False, "entries": [{"ticks": 72, "notes": [tuple(spec)], "whole": True}]}]}
            return obj, {"kind": what, "tracks": [tr]}
        if what == "nc":
            from mingus.containers.note_container import NoteContainer

            specs = sorted([tuple(s) for s in op["notes"]], key=lambda s: score.pitch_of(s[0], s[1]))
            if len(set(score.pitch_of(s[0], s[1]) for s in specs)) != len(specs) or not specs:
                return None, None
            obj = NoteContainer([self.world.make_note(s) for s in op["notes"]])
            tr = {"named": False, "instr": ["none"], "bars": [{"hasmeta": False, "entries": [{"ticks": 72, "notes": specs, "whole": True}]}]}
            return obj, {"kind": what, "tracks": [tr]}
        if what == "bar":
            mb = self.world.pick(self.world.bars, op["ref"])
            if mb is None or not self.world.bar_consistent(mb):
                return None, None
            tr = {"named": False, "instr": ["none"], "bars": [self._bar_model(mb)]}
            return mb.obj, {"kind": what, "tracks": [tr]}
        if what == "track":
            mt = self.world.pick(self.world.tracks, op["ref"])
            if mt is None:
                return None, None
            tm = self._track_model(mt)
            if tm is None:
                return None, None
            return mt.obj, {"kind": what, "tracks": [tm]}
        if what == "comp":
            mc = self.world.pick(self.world.comps, op["ref"])
            if mc is None or not mc.tracks:
                return None, None  # the properties quantify over compositions of 1-4 tracks
            if len(mc.obj.tracks) != len(mc.tracks):
                self.probes["library_composition_differs_from_what_was_built"] += 1  # never on the unchanged tree; judged by the model
            tms = [self._track_model(self.world.tracks[i]) for i in mc.tracks]
            if any(t is None for t in tms):
                return None, None
            return mc.obj, {"kind": what, "tracks": tms}
        return None, None

    def _has_bpm_attr(self, model):
        return False

    # -- write ---------------------------------------------------------------
    def _call_writer(self, what, path, obj, bpm, repeat, mode):
        import mingus.midi.midi_file_out as mfo
        from mingus.midi.midi_track import MidiTrack

        direct_data = None
        if mode == "func":
            fn = {"note": mfo.write_Note, "nc": mfo.write_NoteContainer, "bar": mfo.write_Bar, "track": mfo.write_Track, "comp": mfo.write_Composition}[what]
            ret = fn(path, obj, bpm, repeat)
        else:
            # the same music through the public classes, so that
            # MidiFile.get_midi_data() is observed directly as well
            if what == "comp":
                ts = [MidiTrack(bpm) for _ in obj.tracks]
                for _ in range(repeat + 1):
                    for t, tr in zip(ts, obj.tracks):
                        t.play_Track(tr)
            else:
                t = MidiTrack(bpm)
                for _ in range(repeat + 1):
                    if what == "note":
                        t.set_deltatime(b"\x00")
                        t.play_Note(obj)
                        t.set_deltatime(b"\x48")
                        t.stop_Note(obj)
                    elif what == "nc":
                        t.set_deltatime(b"\x00")
                        t.play_NoteContainer(obj)
                        t.set_deltatime(b"\x48")
                        t.stop_NoteContainer(obj)
                    elif what == "bar":
                        t.play_Bar(obj)
                    else:
                        t.play_Track(obj)
                ts = [t]
            m = mfo.MidiFile(ts)
            direct_data = m.get_midi_data()
            ret = m.write_file(path)
        return ret, direct_data

    def do_write(self, op):
        obj, model = self._resolve(op)
        if obj is None:
            self.probes["skipped_precondition"] += 1
            return
        path, bpm, repeat = op["path"], op["bpm"], op.get("repeat", 0)
        mode = op.get("mode", "func")
        plan = op.get("fault")
        model.update(bpm=bpm, repeat=repeat)
        self.file_ops += 1
        feats = self._features(model, plan)
        prev_len = len(self.disk.read_bytes(path)) if self.disk.exists(path) else None
        shadow = None
        if plan is not None:
            # fault-free shadow copy of the same object: the bytes a successful write must produce
            try:
                r, _ = self._call_writer(op["what"], path + ".shadow", obj, bpm, repeat, mode)
                shadow = bytes(self.disk.read_bytes(path + ".shadow")) if r is True else None
            except SimBudgetExceeded as e:
                self.stalled = kernel.wall_stall(e)
                self.fail(self.prop + ".stall", "writing %s never finished: %s" % (op["what"], e), wall=self.stalled, **feats)
                self.written[path] = None
                return
            except Exception:
                shadow = None
            self.disk.next_plan = plan
        ret, exc, direct = None, None, None
        try:
            ret, direct = self._call_writer(op["what"], path, obj, bpm, repeat, mode)
        except SimBudgetExceeded as e:
            exc = e
        except Exception as e:
            exc = e
        self.disk.next_plan = None
        self.trace.ev("write", op["what"], path, bpm, repeat, mode, plan, ret if isinstance(ret, bool) else repr(ret), type(exc).__name__ if exc else None)
        self.shape.append("w:%s:%s:%s" % (op["what"], mode, self._shape_of(model, plan)))
        self.flipped.pop(path, None)
        stored = bytes(self.disk.read_bytes(path))
        if prev_len is not None and len(stored) < prev_len:
            self.probes["path_overwritten_by_shorter_file"] += 1
        key_obj = (op["what"], op.get("ref"))
        if key_obj in self.written_objects and self.written_objects[key_obj] != repr(model["tracks"]):
            self.probes["object_rewritten_after_edit"] += 1
        self.written_objects[key_obj] = repr(model["tracks"])
        if isinstance(exc, SimBudgetExceeded):
            self.stalled = kernel.wall_stall(exc)
            self.fail(self.prop + ".stall", "writing %s never finished: %s" % (op["what"], exc), wall=self.stalled, **feats)
            self.written[path] = None
            return
        if plan is not None and plan.get("kind") == "error":
            # narrow relaxation: the call may fail; success over wrong bytes is the violation
            self.clauses["C16.success_implies_complete"] += 1
            if ret is True and exc is None:
                if shadow is None or stored != shadow:
                    self.fail("C16.success_implies_complete", "write reported True but the file holds %d bytes, the complete data is %s bytes (fault %s)" % (len(stored), len(shadow) if shadow is not None else "?", json.dumps(plan, sort_keys=True)), **feats)
                    self.written[path] = None
                    return
                self.probes["error_plan_did_not_bite"] += 1
            else:
                if exc is not None:
                    self.probes["write_error_raised"] += 1
                else:
                    self.probes["write_error_returned_false"] += 1
                self.written[path] = None
                return
        else:
            if exc is not None or ret is not True:
                self.fail("C16.frame", "writer for %s %s under %s" % (op["what"], "raised %s: %s" % (type(exc).__name__, exc) if exc else "returned %r" % (ret,), "no fault" if plan is None else "transparent fault " + plan["kind"]), raised=type(exc).__name__ if exc else None, **feats)
                self.written[path] = None
                return
            if shadow is not None:
                self.clauses["C16.success_implies_complete"] += 1
                if stored != shadow:
                    self.fail("C16.success_implies_complete", "under short writes the file holds %d bytes that differ from the %d bytes of a fault-free write" % (len(stored), len(shadow)), **feats)
                    self.written[path] = None
                    return
        if direct is not None:
            self.clauses["C16.frame"] += 1
            self.probes["get_midi_data_observed"] += 1
            if bytes(direct) != stored:
                self.fail("C16.frame", "file content differs from MidiFile.get_midi_data() (%d vs %d bytes)" % (len(stored), len(direct)), **feats)
        self.written[path] = model
        self.ticks += sum(expect_track(t, repeat)["rep_len"] * (repeat + 1) for t in model["tracks"])
        if self.prop == "C16":
            self.judge_c16(stored, model, feats)

    def _features(self, model, plan):
        trs = model["tracks"]
        lead = any(t["bars"] and t["bars"][0]["entries"] and not t["bars"][0]["entries"][0]["notes"] for t in trs)
        trail = any(t["bars"] and t["bars"][-1]["entries"] and not t["bars"][-1]["entries"][-1]["notes"] for t in trs)
        kc = sorted(set(key_class(b["key"]) for t in trs for b in t["bars"] if b.get("hasmeta", True)))
        return {
            "writer": model["kind"],
            "instr": sorted(set(t["instr"][0] for t in trs)),
            "leading_rest": lead,
            "trailing_rest": trail,
            "repeat": model.get("repeat", 0) > 0,
            "keys": kc,
            "fault": plan["kind"] if plan else None,
        }

    def _shape_of(self, model, plan):
        trs = model["tracks"]
        vals = set()
        rests = set()
        for t in trs:
            for b in t["bars"]:
                es = b["entries"]
                for i, e in enumerate(es):
                    vals.add("w" if e.get("whole", True) else "r")
                    if not e["notes"]:
                        rests.add("lead" if i == 0 else ("trail" if i == len(es) - 1 else "mid"))
                        if len(es) == 1:
                            rests.add("wholebar")
                        if i and not es[i - 1]["notes"]:
                            rests.add("consecutive")
        f = self._features(model, plan)
        return "%dt:%s:%s:%s:%s:rep%d:%s" % (len(trs), ",".join(f["keys"]), "".join(sorted(vals)), ",".join(sorted(rests)), ",".join(f["instr"]), min(model.get("repeat", 0), 2), (plan or {}).get("kind"))

    # -- C16 judgement -------------------------------------------------------------
    def judge_c16(self, data, model, feats):
        self.clauses["C16.frame"] += 1
        try:
            doc = smf.parse(data)
        except smf.SMFError as e:
            self.fail("C16.frame", "independent reader rejects the file: %s" % e, **feats)
            return
        if doc["format"] != 1 or doc["division"] != 72:
            self.fail("C16.frame", "header declares format %d, division %d (expected 1, 72)" % (doc["format"], doc["division"]), **feats)
        if len(doc["tracks"]) != len(model["tracks"]):
            self.fail("C16.frame", "%d track chunks for %d tracks" % (len(doc["tracks"]), len(model["tracks"])), **feats)
            return
        for ti, (evs, tr) in enumerate(zip(doc["tracks"], model["tracks"])):
            self.judge_track(ti, evs, tr, model, feats)

    def judge_track(self, ti, evs, tr, model, feats):
        bpm, repeat = model["bpm"], model["repeat"]
        exp = expect_track(tr, repeat)
        single = model["kind"] in ("note", "nc")
        f = dict(feats, instr=tr["instr"][0])
        if max([e["delta"] for e in evs] or [0]) >= 128:
            self.probes["delta_needs_2_byte_vlq"] += 1
        if any(not e.get("whole", True) for b in tr["bars"] for e in b["entries"]):
            self.probes["rounding_value"] += 1
        # tempo
        self.clauses["C16.tempo"] += 1
        tempos = [e for e in evs if e["kind"] == "meta" and e["type"] == 0x51]
        first_note_i = next((i for i, e in enumerate(evs) if e["kind"] == "note_on"), len(evs))
        tempo_i = next((i for i, e in enumerate(evs) if e["kind"] == "meta" and e["type"] == 0x51), None)
        # the tempo holds from the start: one tempo event, at tick 0, before any note (its place among the tick-0 events is free)
        if tempo_i is None or evs[tempo_i]["tick"] != 0 or tempo_i > first_note_i:
            self.fail("C16.tempo", "track %d: no tempo event at tick 0 before the first note" % ti, **f)
        elif int.from_bytes(evs[tempo_i]["data"], "big") != 60000000 // bpm:
            self.fail("C16.tempo", "track %d: tempo %d us per quarter, expected %d (bpm %d)" % (ti, int.from_bytes(evs[tempo_i]["data"], "big"), 60000000 // bpm, bpm), **f)
        elif len(tempos) != 1:
            self.fail("C16.tempo", "track %d: %d tempo events, expected 1" % (ti, len(tempos)), **f)
        # name
        names = [e for e in evs if e["kind"] == "meta" and e["type"] == 0x03]
        if tr["named"]:
            self.clauses["C16.name"] += 1
            want = tr["name"].encode("ascii")
            if len(want) >= 128:
                self.probes["name_length_2_byte_vlq"] += 1
            if not names or names[0]["tick"] != 0 or any(e["data"] != want for e in names):
                self.fail("C16.name", "track %d: name events %r, expected %r at tick 0" % (ti, [(e["tick"], e["data"][:30]) for e in names[:3]], want[:30]), **f)
        # notes
        got_on = [(e["tick"], e["ch"], e["a"], e["b"]) for e in evs if e["kind"] == "note_on"]
        got_off = [(e["tick"], e["ch"], e["a"]) for e in evs if e["kind"] == "note_off"]
        self.clauses["C16.noteon"] += 1
        self.clauses["C16.noteoff"] += 1
        if repeat:
            self.clauses["C16.repeat"] += 1
        if single:
            self.clauses["C16.single"] += 1
        rl = exp["rep_len"]

        exp0 = expect_track(tr, 0)

        def classify(got, want, want0, base):
            """got is in file order."""
            if sorted(got) == sorted(want):
                return None
            if single:
                return "C16.single"
            if repeat and sorted(got[: len(want0)]) == sorted(want0):
                return "C16.repeat"  # the first pass is right, a later one is not
            return "C16.note" + base

        c = classify(got_on, exp["ons"], exp0["ons"], "on")
        if c:
            self.fail(c, "track %d: note-ons (tick, channel, pitch, velocity) %s" % (ti, _diff(got_on, exp["ons"])), **f)
        c = classify(got_off, exp["offs"], exp0["offs"], "off")
        if c:
            self.fail(c, "track %d: note-offs (tick, channel, pitch) %s" % (ti, _diff(got_off, exp["offs"])), **f)
        # sounding-set replay in file order
        sounding = set()
        for e in evs:
            if e["kind"] == "note_on":
                k = (e["ch"], e["a"])
                if k in sounding:
                    self.fail("C16.noteoff", "track %d: note %r starts at tick %d while still sounding" % (ti, k, e["tick"]), hang="overlap", **f)
                    break
                sounding.add(k)
            elif e["kind"] == "note_off":
                k = (e["ch"], e["a"])
                if k not in sounding:
                    self.fail("C16.noteoff", "track %d: note %r stopped at tick %d but was not sounding" % (ti, k, e["tick"]), hang="stray", **f)
                    break
                sounding.discard(k)
        else:
            if sounding:
                self.fail("C16.noteoff", "track %d: notes left hanging %s" % (ti, sorted(sounding)), hang="hanging", **f)
        # time and key signatures
        if not single:
            self.clauses["C16.timesig"] += 1
            self.clauses["C16.keysig"] += 1
            got_ts = [(e["tick"], e["data"][0], e["data"][1]) for e in evs if e["kind"] == "meta" and e["type"] == 0x58]
            got_ks = [(e["tick"], e["data"][0] - 256 if e["data"][0] > 127 else e["data"][0], e["data"][1]) for e in evs if e["kind"] == "meta" and e["type"] == 0x59]
            if got_ts != exp["tsigs"]:
                self.fail("C16.repeat" if repeat and got_ts[: len(exp["tsigs"]) // (repeat + 1)] == exp["tsigs"][: len(exp["tsigs"]) // (repeat + 1)] else "C16.timesig", "track %d: time signatures (tick, count, log2 unit) %s" % (ti, _diff(got_ts, exp["tsigs"])), **f)
            if got_ks != exp["ksigs"]:
                only_value = [x[0] for x in got_ks] == [x[0] for x in exp["ksigs"]]
                self.fail("C16.repeat" if repeat and not only_value and got_ks[: len(exp["ksigs"]) // (repeat + 1)] == exp["ksigs"][: len(exp["ksigs"]) // (repeat + 1)] else "C16.keysig", "track %d: key signatures (tick, sharps(+)/flats(-), minor) %s" % (ti, _diff(got_ks, exp["ksigs"])), **f)
        # instrument
        progs = [(i, e) for i, e in enumerate(evs) if e["kind"] == "program"]
        banks = [(i, e) for i, e in enumerate(evs) if e["kind"] == "cc" and e["a"] == 0]
        first_on = next((i for i, e in enumerate(evs) if e["kind"] == "note_on"), None)
        if tr["instr"][0] == "midi" and exp["first_note"] is not None:
            self.clauses["C16.program"] += 1
            nr = tr["instr"][2] if tr["instr"][2] is not None else 1
            ch = exp["first_note"][2]
            if tr["bars"][0]["entries"] and not tr["bars"][0]["entries"][0]["notes"]:
                self.probes["leading_rest_with_midi_instrument"] += 1
            if not progs or any(e["ch"] != ch or e["a"] != nr for _, e in progs) or (first_on is not None and progs[0][0] > first_on):
                self.fail("C16.program", "track %d: program changes %s, expected program %d on channel %d before the first note" % (ti, [(e["tick"], e["ch"], e["a"]) for _, e in progs[:3]], nr, ch), **f)
            elif not banks or any(e["ch"] != ch for _, e in banks) or (first_on is not None and banks[0][0] > first_on):
                others = [(e["tick"], e["ch"], e["a"], e["b"]) for e in evs if e["kind"] == "cc"][:3]
                self.fail("C16.program", "track %d: no bank select (controller 0) on channel %d before the first note; controller events: %s" % (ti, ch, others), **f)
        elif tr["instr"][0] != "midi":
            if progs or any(e["kind"] == "cc" for e in evs):
                self.clauses["C16.program"] += 1
                self.fail("C16.program", "track %d: instrument events for a track without a MIDI instrument" % ti, **f)

    # -- C17: flip stored bytes, read back -------------------------------------------
    def do_flip(self, op):
        path = op["path"]
        data = bytearray(self.disk.read_bytes(path)) if self.disk.exists(path) else None
        if data is None or self.written.get(path) is None or path in self.flipped:
            return  # one damaged byte per stored file: a second flip could undo the first
        region = op["region"]
        pos = None
        if region == "MThd":
            pos = op["off"] % 4
        elif region == "format":
            pos = 8 + op["off"] % 2
        else:
            tags = []
            p = 14
            while p + 8 <= len(data):
                tags.append(p)
                p += 8 + int.from_bytes(data[p + 4 : p + 8], "big")
            if not tags:
                return
            pos = tags[op.get("which", 0) % len(tags)] + op["off"] % 4
        if pos >= len(data):
            return
        if op.get("tag") and region in ("MThd", "MTrk"):
            # the whole 4-byte tag replaced by another plausible tag (e.g. the *other* chunk tag)
            start = pos - (op["off"] % 4)
            new_tag = op["tag"].encode("latin-1")[:4].ljust(4, b"\0")
            if bytes(data[start : start + 4]) == new_tag:
                return
            old_tag = bytes(data[start : start + 4])
            data[start : start + 4] = new_tag
            self.disk.write_bytes(path, data)
            self.flipped[path] = (region + " tag", start, int.from_bytes(old_tag, "big"), int.from_bytes(new_tag, "big"))
            self.faults["stored_flip"] += 1
            self.probes["flip_whole_tag"] += 1
            self.trace.ev("flip_tag", path, region, start, new_tag)
            return
        old = data[pos]
        new = op["byte"] & 0xFF
        if region == "format":
            # the resulting 16-bit value must not be 0, 1 or 2
            trial = bytearray(data[8:10])
            trial[pos - 8] = new
            if int.from_bytes(trial, "big") in (0, 1, 2):
                new = 3 if pos == 9 else 1
        if new == old:
            new = old ^ 0x01
            if region == "format":
                trial = bytearray(data[8:10])
                trial[pos - 8] = new
                if int.from_bytes(trial, "big") in (0, 1, 2):
                    new = 0x7F
        data[pos] = new
        self.disk.write_bytes(path, data)
        self.flipped[path] = (region, pos, old, new)
        self.faults["stored_flip"] += 1
        self.probes["flip_" + region] += 1
        self.trace.ev("flip", path, region, pos, old, new)

    def do_read(self, op):
        import mingus.midi.midi_file_in as mfi

        path = op["path"]
        if not self.disk.exists(path):
            return
        self.file_ops += 1
        model = self.written.get(path)
        flip = self.flipped.get(path)
        plan = op.get("fault")
        if op.get("reader") == "reuse":
            if self.reader is None:
                self.reader = mfi.MidiFile()
            else:
                self.probes["reader_reused"] += 1
                if self.reader_rejected:
                    self.probes["reader_reused_after_reject"] += 1
            rd = self.reader
            call = lambda: rd.MIDI_to_Composition(path)
        else:
            call = lambda: mfi.MIDI_to_Composition(path)
        self.disk.next_plan = plan
        res, exc = None, None
        try:
            res = call()
        except SimBudgetExceeded as e:
            exc = e
        except Exception as e:
            exc = e
        self.disk.next_plan = None
        self.trace.ev("read", path, op.get("reader"), plan, type(exc).__name__ if exc else None)
        self.shape.append("r:%s:%s:%s" % (op.get("reader", "fresh"), "flip-" + flip[0] if flip else "ok", (plan or {}).get("kind")))
        if op.get("reader") == "reuse":
            self.reader_rejected = exc is not None
        feats = dict(self._features(model, plan)) if model else {"fault": plan["kind"] if plan else None}
        feats["reader"] = op.get("reader", "fresh")
        if isinstance(exc, SimBudgetExceeded):
            self.stalled = kernel.wall_stall(exc)
            self.fail("C17.stall", "reading never finished: %s" % exc, wall=self.stalled, **feats)
            return
        if flip is not None:
            self.clauses["C17.reject"] += 1
            if exc is None:
                self.fail("C17.reject", "file with damaged %s (byte %d: %#x -> %#x) was returned as music" % flip, region=flip[0], **feats)
            return
        if model is None:
            return
        if exc is not None:
            self.clauses["C17.sequence"] += 1
            self.fail("C17.sequence", "reading back raised %s: %s" % (type(exc).__name__, str(exc)[:200]), raised=type(exc).__name__, **feats)
            return
        self.judge_c17(res, model, feats)

    reader_rejected = False

    def judge_c17(self, res, model, feats):
        try:
            comp, bpm = res
            tracks = list(comp.tracks)
        except Exception as e:
            self.fail("C17.tracks", "reader returned %r" % (type(res),), **feats)
            return
        self.clauses["C17.tracks"] += 1
        if len(tracks) != len(model["tracks"]):
            self.fail("C17.tracks", "%d tracks read back, %d written" % (len(tracks), len(model["tracks"])), **feats)
            return
        self.clauses["C17.tempo"] += 1
        if bpm != model["bpm"]:
            self.fail("C17.tempo", "tempo read back %r, written %r" % (bpm, model["bpm"]), **feats)
        for ti, (t, tm) in enumerate(zip(tracks, model["tracks"])):
            f = dict(feats, instr=tm["instr"][0])
            f["leading_rest"] = bool(tm["bars"] and tm["bars"][0]["entries"] and not tm["bars"][0]["entries"][0]["notes"])
            f["keys"] = sorted(set(key_class(b["key"]) for b in tm["bars"] if b.get("hasmeta", True)))
            # written side
            w_seq, w_dyn = [], []
            for rep in range(model["repeat"] + 1):
                for b in tm["bars"]:
                    for e in b["entries"]:
                        ps = frozenset(score.pitch_of(n[0], n[1]) for n in e["notes"] or [])
                        w_seq.append((e["ticks"], ps))
                        w_dyn.append((e["ticks"], frozenset((score.pitch_of(n[0], n[1]), n[2], n[3]) for n in e["notes"] or [])))
            # read side
            r_seq, r_dyn = [], []
            try:
                for b in t.bars:
                    for (beat, dur, nc) in b.bar:
                        tk = int(round(288.0 / dur))
                        notes = list(nc) if nc is not None else []
                        r_seq.append((tk, frozenset(int(n) for n in notes)))
                        r_dyn.append((tk, frozenset((int(n), n.channel, n.velocity) for n in notes)))
            except Exception as e:
                self.fail("C17.sequence", "track %d: cannot walk what was read back: %s" % (ti, e), **f)
                continue
            if any(not e.get("whole", True) for bb in tm["bars"] for e in bb["entries"]):
                # the statement speaks of values that are whole tick counts; anything else is rounded on the way out
                self.probes["c17_track_outside_domain_not_whole_ticks"] += 1
                continue
            self.clauses["C17.sequence"] += 1
            nw, nr = normal_form(w_seq), normal_form(r_seq)
            if f["leading_rest"]:
                self.probes["track_begins_with_rest"] += 1
            if any(not a[1] and not b[1] for a, b in zip(w_seq, w_seq[1:])):
                self.probes["consecutive_rests"] += 1
            if nw != nr:
                self.fail("C17.sequence", "track %d: read back %s, written %s" % (ti, _seq(nr), _seq(nw)), **f)
            else:
                self.clauses["C17.dynamics"] += 1
                if normal_form(w_dyn) != normal_form(r_dyn):
                    self.fail("C17.dynamics", "track %d: (pitch, channel, velocity) read back %s, written %s" % (ti, _seq(normal_form(r_dyn)), _seq(normal_form(w_dyn))), **f)
            if tm["named"]:
                self.clauses["C17.name"] += 1
                if getattr(t, "name", None) != tm["name"]:
                    self.fail("C17.name", "track %d: name read back %r, written %r" % (ti, getattr(t, "name", None), tm["name"]), **f)
            has_notes = any(e["notes"] for b in tm["bars"] for e in b["entries"])
            if tm["instr"][0] == "midi" and has_notes:
                self.clauses["C17.program"] += 1
                nr_w = tm["instr"][2] if tm["instr"][2] is not None else 1
                nr_r = getattr(getattr(t, "instrument", None), "instrument_nr", None)
                if nr_r != nr_w:
                    self.fail("C17.program", "track %d: instrument number read back %r, written %r" % (ti, nr_r, nr_w), **f)
            meters = set(tuple(b["meter"]) for b in tm["bars"])
            keys = set(b["key"] for b in tm["bars"])
            if tm["named"] and len(meters) == 1 and len(keys) == 1 and tm["bars"]:
                self.clauses["C17.meter"] += 1
                self.clauses["C17.key"] += 1
                self.probes["key_read_back_" + key_class(list(keys)[0])] += 1
                m = list(meters)[0]
                k = list(keys)[0]
                bad_m = [tuple(b.meter) for b in t.bars if tuple(b.meter) != m]
                if bad_m:
                    self.fail("C17.meter", "track %d: meter read back %s, written %s" % (ti, bad_m[:3], m), **f)
                try:
                    got_k = [(b.key.key if hasattr(b.key, "key") else b.key) for b in t.bars]
                    got_mode = [(b.key.mode if hasattr(b.key, "mode") else None) for b in t.bars]
                except Exception as e:
                    got_k, got_mode = ["?"], ["?"]
                want_mode = "minor" if k[0].islower() else "major"
                if any(g != k for g in got_k) or any(g != want_mode for g in got_mode):
                    self.fail("C17.key", "track %d: key read back %s (%s), written %r (%s)" % (ti, got_k[:3], got_mode[:1], k, want_mode), **f)

    # ------------------------------------------------------------------
    def result(self):
        nontrivial = self.file_ops > 0
        return {
            "failures": self.failures,
            "faults": dict(self.faults),
            "probes": dict(self.probes),
            "clauses": dict(self.clauses),
            "ops": len(self.program["ops"]),
            "shape": "|".join(self.shape) + "|buf%d" % self.disk.bufsize,
            "nontrivial": nontrivial,
            "sim": {"runs_with_fault_config_" + str(self.cfg.get("fault", "none")): 1, "midi_ticks": int(self.ticks), "bytes_written_to_simdisk": self.disk.bytes_written, "bytes_read_from_simdisk": self.disk.bytes_read, "raw_io_calls": self.disk.raw_calls, "file_operations": self.file_ops},
            "digest": self.trace.digest(),
            "states": [],
        }


def _diff(got, want, n=6):
    g, w = sorted(got), sorted(want)
    cg, cw = collections.Counter(g), collections.Counter(w)
    extra = sorted((cg - cw).elements())
    missing = sorted((cw - cg).elements())
    return "unexpected %s%s, missing %s%s (got %d, expected %d)" % (extra[:n], "..." if len(extra) > n else "", missing[:n], "..." if len(missing) > n else "", len(g), len(w))


def _seq(nf, n=10):
    return "%s%s" % ([(t, sorted(ps)) for t, ps in nf[:n]], "..." if len(nf) > n else "")


def execute(prop, program):
    return Exec(prop, program).run()


# ---------------------------------------------------------------------------
# generation

WHOLE_ALLOW = [[], ["dot"], ["t3"], ["dot", "t3"], ["dot", "ddot", "t3"]]
ANY_ALLOW = WHOLE_ALLOW + [["t5"], ["t7"], ["dot", "ddot", "t3", "t5", "t7"], ["t5", "t7"]]
PATHS = ["a.mid", "b.mid", "c.mid"]
TRANSPOSE_BY = ["2", "3", "b3", "4", "5", "#4", "6", "b7", "7", "1", "#1", "b2"]
ERRNOS = ["ENOSPC", "EIO", "EACCES"]


def _fill(rng, meter, whole_only, full):
    for _ in range(30):
        allow = set(rng.choice(WHOLE_ALLOW if whole_only else ANY_ALLOW))
        depth = rng.choice([0, 1, 1, 2, 2, 3] if whole_only else [0, 1, 2, 2, 3, 4])
        syms = score.fill_bar(rng, meter[0], meter[1], depth, allow, max_entries=16)
        if whole_only and not all(score.is_whole_ticks(score.sym_length(s)) for s in syms):
            continue
        if not full and len(syms) > 1 and rng.random() < 0.5:
            syms = syms[: rng.randrange(1, len(syms) + 1)]
        return syms
    count, unit = score.reduce_meter(meter[0], meter[1])
    return [[unit, 0, 1, 1] for _ in range(count)]


def _gen_track(rng, ops, cfg, prop, single_key_meter):
    """Emits ops for one track, returns its index."""
    whole_only = prop == "C17" or cfg["whole_only"]
    vel_lo = 1 if prop == "C17" else 0
    r = rng.random()
    if r < 0.35:
        instr = ["none"]
    elif r < 0.45:
        instr = ["plain"]
    elif r < 0.5:
        instr = ["piano"]
    else:
        instr = ["midi", rng.choice(["", "Violin", "x"]), rng.choice([None, 0, 1, 13, 127, rng.randrange(128)])]
    r = rng.random()
    if r < 0.5:
        name = None
    elif r < 0.6:
        name = ""
    elif r < 0.7:
        name = "".join(rng.choice("abcXYZ 019_-") for _ in range(rng.choice([127, 128, 200, 300])))
    else:
        name = "".join(rng.choice("abcdefgh XYZ019") for _ in range(rng.randrange(1, 20)))
    late = instr[0] != "none" and rng.random() < 0.3
    ops.append({"op": "track", "instr": instr, "name": name, "late": late})
    t = sum(1 for o in ops if o["op"] == "track") - 1
    t_index = t
    key = rng.choice(world.ALL_KEYS) if rng.random() < cfg["key_p"] else "C"
    meter = rng.choice(world.METERS)
    chan = None if rng.random() < 0.3 else rng.randrange(16)
    nbars = rng.choice([0, 1, 1, 2, 2, 3, 4, 6]) if prop == "C16" else rng.choice([1, 1, 2, 2, 3, 4])
    tick_mode = rng.random() < cfg.get("tick_mode_p", 0.0)
    for bi in range(nbars):
        if tick_mode:
            # any value with a whole tick count is legal (288/value integral), not only the named ones:
            # entries of t ticks in a long bar, biased to the variable-length-quantity boundaries
            big = rng.choice([[16, 4], [16, 4], [64, 4], [255, 4], [128, 8], [32, 2]])
            ops.append({"op": "bar", "key": key, "meter": big})
            b = sum(1 for o in ops if o["op"] == "bar") - 1
            left = 288 * big[0] // big[1]
            for i in range(rng.randrange(1, 9)):
                t = rng.choice([1, 2, 3, 32, 63, 64, 65, 96, 127, 128, 128, 129, 160, 255, 256, 257, 300, rng.randrange(1, 400), rng.randrange(1, 400)])
                if t > left:
                    break
                left -= t
                sym = [[288, t], 0, 1, 1]
                if rng.random() < max(cfg["rest_p"], 0.35):
                    ops.append({"op": "place", "bar": b, "notes": None, "v": sym})
                else:
                    ops.append({"op": "place", "bar": b, "notes": world.gen_chord(rng, chan, vel_lo=vel_lo), "v": sym})
            ops.append({"op": "tadd", "track": t_index, "bar": b})
            continue
        if not single_key_meter:
            if rng.random() < 0.4:
                key = rng.choice(world.ALL_KEYS) if rng.random() < cfg["key_p"] else "C"
            if rng.random() < 0.3:
                meter = rng.choice(world.METERS)
        syms = _fill(rng, meter, whole_only, full=rng.random() < 0.8)
        if rng.random() < 0.04:
            syms = []  # an empty bar: only its time and key signature are written
        ops.append({"op": "bar", "key": key, "meter": list(meter)})
        b = sum(1 for o in ops if o["op"] == "bar") - 1
        whole_rest = rng.random() < 0.07
        for i, sym in enumerate(syms):
            rr = rng.random()
            lead = i == 0 and rng.random() < cfg["lead_rest_p"]
            trail = i == len(syms) - 1 and rng.random() < cfg["trail_rest_p"]
            if whole_rest or lead or trail or rr < cfg["rest_p"]:
                o = {"op": "place", "bar": b, "notes": None, "v": sym}
                if rng.random() < 0.15:
                    o["empty_nc"] = True
            else:
                o = {"op": "place", "bar": b, "notes": world.gen_chord(rng, chan, vel_lo=vel_lo), "v": sym}
            ops.append(o)
        ops.append({"op": "tadd", "track": t_index, "bar": b})
        if rng.random() < 0.05:
            ops.append({"op": "tadd", "track": t_index, "bar": b, "again": True})
        if rng.random() < 0.06:
            ops.append({"op": "setnote", "bar": b, "entry": rng.randrange(8), "pos": rng.randrange(5), "note": world.gen_note(rng, chan, vel_lo=vel_lo)})
        if rng.random() < 0.05:
            ops.append({"op": "transpose", "level": rng.choice(["nc", "bar"]), "ref": b, "entry": rng.randrange(8), "interval": rng.choice(TRANSPOSE_BY), "up": rng.random() < 0.6})
        if rng.random() < 0.03:
            ops.append({"op": "peek", "what": rng.choice(["bar", "nc"]), "ref": b, "entry": rng.randrange(8), "n": rng.choice([1, 1, 2])})
        if t_index > 0 and rng.random() < 0.04:
            ops.append({"op": "tadd", "track": rng.randrange(t_index), "bar": b, "share": True})  # an earlier track doubles this bar
    if rng.random() < 0.05:
        ops.append({"op": "transpose", "level": "track", "ref": t_index, "interval": rng.choice(TRANSPOSE_BY), "up": rng.random() < 0.6})
    if rng.random() < 0.04:
        ops.append({"op": "peek", "what": "track", "ref": t_index, "n": rng.choice([1, 1, 2])})
    if late:
        ops.append({"op": "setinstr", "track": t_index})
    return t_index


def _gen_plan(rng, cfg, for_read=False):
    k = cfg["fault"]
    if k == "none":
        return None
    if k == "short":
        return {"kind": "short", "sizes": [rng.choice([1, 1, 2, 3, 5, 13, 14, 22, 100, 4000]) for _ in range(rng.randrange(1, 5))]}
    if k == "error" and not for_read:
        where = "open" if rng.random() < 0.15 else "write"
        r = rng.random()
        if r < 0.25:
            at = rng.randrange(0, 15)  # inside the header
        elif r < 0.45:
            at = rng.randrange(14, 23)  # inside the first chunk header
        else:
            at = rng.randrange(0, 3000)
        return {"kind": "error", "where": where, "at": at, "errno": rng.choice(ERRNOS)}
    return None


def generate(rng, prop, tier):
    cfg = {
        "bufsize": rng.choice([1, 7, 64, 512, 8192, 8192]),
        "fault": rng.choice(["none"] * 7 + ["short"] * 2 + ["error"]) if prop == "C16" else rng.choice(["none"] * 6 + ["short"] * 4),
        "whole_only": rng.random() < 0.4,
        "key_p": rng.choice([0.0, 0.5, 1.0, 1.0]),
        "rest_p": rng.choice([0.0, 0.1, 0.3]),
        "lead_rest_p": rng.choice([0.0, 0.0, 0.3, 1.0]),
        "trail_rest_p": rng.choice([0.0, 0.0, 0.3, 1.0]),
        "flip_p": rng.choice([0.0, 0.0, 0.3, 0.6]) if prop == "C17" else 0.0,
        "tick_mode_p": rng.choice([0.0, 0.0, 0.3, 1.0]),
    }
    ops = []

    def bpm():
        return rng.choice([4, 60, 120, 120, 1000, rng.randrange(4, 1001), rng.randrange(4, 1001)])

    def make_comp(ntracks, single):
        ts = [_gen_track(rng, ops, cfg, prop, single) for _ in range(ntracks)]
        if ntracks < 4 and rng.random() < 0.06:
            # a doubling: one more track that holds the very same bars as an earlier one (another name / instrument)
            src = rng.choice(ts)
            its = [o["bar"] for o in ops if o["op"] == "tadd" and o["track"] == src and not o.get("share")]
            ops.append({"op": "track", "instr": rng.choice([["none"], ["plain"], ["midi", "Violin", None]]), "name": rng.choice([None, "double"]), "late": False})
            t2 = sum(1 for o in ops if o["op"] == "track") - 1
            for bb in its:
                ops.append({"op": "tadd", "track": t2, "bar": bb, "share": True})
            ts.append(t2)
        ops.append({"op": "comp"})
        c = sum(1 for o in ops if o["op"] == "comp") - 1
        for t in ts:
            ops.append({"op": "cadd", "comp": c, "track": t})
        return c, ts

    if prop == "C16":
        c, ts = make_comp(rng.choice([1, 1, 2, 3, 4]), rng.random() < 0.3)
        nb = sum(1 for o in ops if o["op"] == "bar")
        for _ in range(rng.choice([1, 1, 2, 3, 4])):
            what = rng.choice(["comp", "comp", "track", "track", "bar", "bar", "note", "nc"])
            o = {"op": "write", "what": what, "path": rng.choice(PATHS), "bpm": bpm(), "repeat": rng.choice([0, 0, 0, 1, 2, 3]), "mode": rng.choice(["func", "func", "direct"])}
            if what == "comp":
                o["ref"] = c
            elif what == "track":
                o["ref"] = rng.choice(ts)
            elif what == "bar":
                o["ref"] = rng.randrange(max(1, nb))
            elif what == "note":
                o["note"] = world.gen_note(rng)
            else:
                o["notes"] = world.gen_chord(rng)
            plan = _gen_plan(rng, cfg)
            if plan is not None:
                o["fault"] = plan
            ops.append(o)
            if what in ("bar", "track", "comp") and nb and rng.random() < 0.25:
                # the caller goes on composing: the object written a moment ago changes and is written again
                tgt = o["ref"] if what == "bar" else rng.randrange(nb)
                for _ in range(rng.randrange(1, 4)):
                    ops.append({"op": "place", "bar": tgt, "notes": world.gen_chord(rng) if rng.random() < 0.8 else None, "v": rng.choice([[4, 0, 1, 1], [8, 0, 1, 1], [16, 0, 1, 1], [8, 0, 3, 2]])})
                ops.append(dict(o, path=rng.choice(PATHS)))
    else:
        ncomps = rng.choice([1, 1, 2])
        comps = [make_comp(rng.choice([1, 1, 2, 3, 4]), rng.random() < 0.7) for _ in range(ncomps)]
        nfile = rng.randrange(2, 9)
        wrote = []
        for _ in range(nfile):
            r = rng.random()
            if not wrote or r < 0.4:
                c, ts = rng.choice(comps)
                path = rng.choice(PATHS)
                if rng.random() < 0.85:
                    o = {"op": "write", "what": "comp", "ref": c, "path": path, "bpm": bpm(), "repeat": 0 if rng.random() < 0.9 else rng.choice([1, 2]), "mode": rng.choice(["func", "func", "direct"])}
                else:
                    o = {"op": "write", "what": "track", "ref": rng.choice(ts), "path": path, "bpm": bpm(), "repeat": 0, "mode": "func"}
                plan = _gen_plan(rng, cfg)
                if plan is not None:
                    o["fault"] = plan
                ops.append(o)
                wrote.append(path)
            else:
                path = rng.choice(wrote)
                if rng.random() < cfg["flip_p"]:
                    fl = {"op": "flip", "path": path, "region": rng.choice(["MThd", "format", "MTrk", "MTrk"]), "which": rng.randrange(4), "off": rng.randrange(4), "byte": rng.choice([0, 1, 2, 3, 0x4D, 0x54, 0xFF, rng.randrange(256)])}
                    if rng.random() < 0.3:
                        fl["tag"] = rng.choice(["MTrk", "MThd", "RIFF", "mthd", "mtrk", "dhTM", "krTM", "MTr", "MT  "])
                    ops.append(fl)
                o = {"op": "read", "path": path, "reader": rng.choice(["fresh", "fresh", "reuse"])}
                plan = _gen_plan(rng, cfg, for_read=True)
                if plan is not None:
                    o["fault"] = plan
                ops.append(o)
        if wrote and not any(o["op"] == "read" for o in ops):
            ops.append({"op": "read", "path": wrote[-1], "reader": "fresh"})
    ops = world.sprinkle_theory(rng, ops)
    return {"prop": prop, "cfg": cfg, "ops": ops}


def simplify_op(prop, op):
    out = []
    k = op["op"]
    if k == "place":
        if op.get("notes"):
            if len(op["notes"]) > 1:
                out.append(dict(op, notes=op["notes"][:1]))
            out.append(dict(op, notes=[["C", 4, n[2], 64] if i == 0 else n for i, n in enumerate(op["notes"])]))
            out.append(dict(op, notes=[[n[0], n[1], 1, n[3]] for n in op["notes"]]))
        if op.get("empty_nc"):
            o = dict(op)
            del o["empty_nc"]
            out.append(o)
    elif k == "bar":
        if op["key"] != "C":
            out.append(dict(op, key="C"))
    elif k == "track":
        if op.get("instr") != ["none"]:
            out.append(dict(op, instr=["none"]))
        if op.get("name") is not None:
            out.append(dict(op, name=None))
    elif k == "write":
        if op.get("repeat"):
            out.append(dict(op, repeat=0))
            out.append(dict(op, repeat=1))
        if op.get("bpm") != 120:
            out.append(dict(op, bpm=120))
        if op.get("fault") is not None:
            o = dict(op)
            del o["fault"]
            out.append(o)
        if op.get("mode") != "func":
            out.append(dict(op, mode="func"))
    elif k == "read":
        if op.get("fault") is not None:
            o = dict(op)
            del o["fault"]
            out.append(o)
        if op.get("reader") != "fresh":
            out.append(dict(op, reader="fresh"))
    return out


def simplify_program(prop, ops):
    from .seqsim import _merge_candidates

    for c in _merge_candidates(ops):
        yield c
    # a bigger simulated buffer is the simpler configuration; handled via cfg, not here


def tiers(prop):
    if prop == "C16":
        return {"quick": 12000, "thorough": 500000}
    return {"quick": 10000, "thorough": 400000}


# ---------------------------------------------------------------------------
# enumeration legs (labelled as enumeration in the evidence)


VLQ_SLICES = 64


def legs(prop, tier):
    if prop == "C16":
        base = ["vlq_encoder"]
        if tier == "thorough":
            base += ["vlq_encoder_all:%d" % k for k in range(VLQ_SLICES)]  # every integer 0..2^28-1, in parallel slices
        return base
    base = ["vlq_inverse", "bpm_sweep", "header_flips"]
    if tier == "thorough":
        base += ["vlq_inverse_all:%d" % k for k in range(VLQ_SLICES)]
    return base


def _vlq_numbers():
    nums = list(range(0, 70001))
    for k in (1, 2, 3):
        nums += list(range(128 ** k - 300, 128 ** k + 301))
    nums += list(range(2 ** 28 - 300, 2 ** 28))
    return sorted(set(n for n in nums if 0 <= n < 2 ** 28))


def run_leg(prop, tier, seed, name):
    """Enumeration legs run many library calls in one child; a wall-clock backstop
    (armed once per leg) turns a call that never returns into a failure of the
    leg's clause instead of a hung check."""
    import signal

    if name.startswith("vlq"):
        signal.signal(signal.SIGALRM, kernel._raise_stall)
        signal.setitimer(signal.ITIMER_REAL, 240 if ":" in name else 25, 1.0)
    try:
        return _run_leg(prop, tier, seed, name)
    except SimBudgetExceeded as e:
        kernel.wall_stall(e)
        clause = "C16.vlq" if prop == "C16" else "C17.vlq_inverse"
        return {"leg": name, "kind": "enumeration (not seeded search)", "cases": 0, "exhaustive": False,
                "failures": [{"clause": clause, "detail": "the variable-length %s did not return for some integer of leg %s (wall-clock backstop)" % ("encoder" if prop == "C16" else "reader/writer pair", name.split(":")[0]), "features": {"leg": name.split(":")[0], "wall": True}, "program": {"prop": prop, "cfg": {}, "ops": [{"op": "leg", "name": name, "tier": tier}]}}]}
    finally:
        try:
            signal.setitimer(signal.ITIMER_REAL, 0)
        except Exception:
            pass


def _run_leg(prop, tier, seed, name):
    preload(prop)
    failures = []
    n = 0
    if name.startswith("vlq_encoder_all:") or name.startswith("vlq_inverse_all:"):
        from mingus.midi.midi_track import MidiTrack
        import mingus.midi.midi_file_in as mfi

        k = int(name.split(":")[1])
        size = (1 << 28) // VLQ_SLICES
        lo, hi = k * size, (k + 1) * size
        enc = MidiTrack().int_to_varbyte
        inverse = name.startswith("vlq_inverse_all:")
        rd = mfi.MidiFile()
        bad = []
        std = smf.vlq_encode
        for v in range(lo, hi):
            try:
                e = enc(v)
                if inverse:
                    if rd.parse_varbyte_as_int(io.BytesIO(e)) != (v, len(e)):
                        bad.append((v, e.hex()))
                elif e != std(v):
                    bad.append((v, e.hex(), std(v).hex()))
            except Exception as ex:
                bad.append((v, "raised %s" % type(ex).__name__))
            if len(bad) > 20:
                break
        clause = "C17.vlq_inverse" if inverse else "C16.vlq"
        if bad:
            failures.append({"clause": clause, "detail": "%s: %d integers in [%d, %d) wrong, first: %s" % ("reader does not invert the writer" if inverse else "int_to_varbyte differs from the standard encoding", len(bad), lo, hi, bad[:3]), "features": {"leg": name.split(":")[0]}, "program": {"prop": prop, "cfg": {}, "ops": [{"op": "leg", "name": name, "tier": tier}]}})
        return {"leg": name, "kind": "enumeration (not seeded search)", "cases": hi - lo, "exhaustive": True, "note": "slice %d of %d of the full range 0..2^28-1" % (k, VLQ_SLICES), "failures": failures}
    if name == "vlq_encoder":
        from mingus.midi.midi_track import MidiTrack

        t = MidiTrack()
        bad = []
        for v in _vlq_numbers():
            n += 1
            try:
                got = t.int_to_varbyte(v)
            except Exception as e:
                got = "raised %s" % type(e).__name__
            if got != smf.vlq_encode(v):
                bad.append((v, got if isinstance(got, str) else got.hex(), smf.vlq_encode(v).hex()))
        if bad:
            failures.append({"clause": "C16.vlq", "detail": "int_to_varbyte differs from the standard encoding for %d integers, first: %s" % (len(bad), bad[:3]), "features": {"leg": name}, "program": {"prop": prop, "cfg": {}, "ops": [{"op": "leg", "name": name, "tier": tier}]}})
    elif name == "vlq_inverse":
        from mingus.midi.midi_track import MidiTrack
        import mingus.midi.midi_file_in as mfi

        t = MidiTrack()
        bad = []
        for v in _vlq_numbers():
            n += 1
            try:
                enc = t.int_to_varbyte(v)
                got = mfi.MidiFile().parse_varbyte_as_int(io.BytesIO(enc + b"\x00\x00"))
            except Exception as e:
                got = "raised %s" % type(e).__name__
                enc = b""
            if got != (v, len(enc)):
                bad.append((v, got))
        if bad:
            failures.append({"clause": "C17.vlq_inverse", "detail": "reader does not invert the writer for %d integers, first: %s" % (len(bad), bad[:3]), "features": {"leg": name}, "program": {"prop": prop, "cfg": {}, "ops": [{"op": "leg", "name": name, "tier": tier}]}})
    elif name in ("bpm_sweep", "header_flips"):
        # run through the ordinary op interpreter so that a failure is an ordinary replayable program
        base = [
            {"op": "track", "instr": ["none"], "name": None},
            {"op": "bar", "key": "C", "meter": [4, 4]},
            {"op": "place", "bar": 0, "notes": [["C", 4, 1, 64]], "v": [4, 0, 1, 1]},
            {"op": "place", "bar": 0, "notes": [["E", 4, 1, 64]], "v": [4, 0, 1, 1]},
            {"op": "tadd", "track": 0, "bar": 0},
            {"op": "comp"},
            {"op": "cadd", "comp": 0, "track": 0},
        ]
        progs = []
        if name == "bpm_sweep":
            step = 1 if tier == "thorough" else 7
            for b in sorted(set(list(range(4, 1001, step)) + [4, 5, 999, 1000])):
                progs.append(base + [{"op": "write", "what": "comp", "ref": 0, "path": "a.mid", "bpm": b, "repeat": 0, "mode": "func"}, {"op": "read", "path": "a.mid", "reader": "fresh"}])
        else:
            two = base + [{"op": "track", "instr": ["none"], "name": None}, {"op": "bar", "key": "C", "meter": [4, 4]}, {"op": "place", "bar": 1, "notes": [["G", 4, 2, 64]], "v": [2, 0, 1, 1]}, {"op": "tadd", "track": 1, "bar": 1}, {"op": "cadd", "comp": 0, "track": 1}]
            bytes_ = [0x00, 0x01, 0x4C, 0x54, 0x72, 0xFF] if tier == "quick" else list(range(256))
            for region, offs, whichs in (("MThd", range(4), [0]), ("format", range(2), [0]), ("MTrk", range(4), [0, 1])):
                for off in offs:
                    for which in whichs:
                        for b in bytes_:
                            progs.append(two + [{"op": "write", "what": "comp", "ref": 0, "path": "a.mid", "bpm": 120, "repeat": 0, "mode": "func"}, {"op": "flip", "path": "a.mid", "region": region, "which": which, "off": off, "byte": b}, {"op": "read", "path": "a.mid", "reader": "fresh"}])
        if name == "header_flips":
            for region, whichs in (("MThd", [0]), ("MTrk", [0, 1])):
                for which in whichs:
                    for tag in ["MTrk", "MThd", "RIFF", "mthd", "mtrk", "dhTM", "krTM", "MTr", "MT  ", "\0\0\0\0"]:
                        progs.append(two + [{"op": "write", "what": "comp", "ref": 0, "path": "a.mid", "bpm": 120, "repeat": 0, "mode": "func"}, {"op": "flip", "path": "a.mid", "region": region, "which": which, "off": 0, "byte": 0, "tag": tag}, {"op": "read", "path": "a.mid", "reader": "fresh"}])
        seen = set()
        for ops in progs:
            n += 1
            program = {"prop": prop, "cfg": {"bufsize": 8192}, "ops": ops}
            res = kernel.forked(execute, (prop, program), soft=kernel.SOFT_STALL_S)
            if "harness_error" in res:
                return res
            for f in res["failures"]:
                if name == "bpm_sweep" and f["clause"] != "C17.tempo":
                    continue  # other clauses are judged by the seeded runs
                if name == "header_flips" and f["clause"] != "C17.reject":
                    continue
                sig = kernel.feature_sig(f)
                if sig in seen:
                    continue
                seen.add(sig)
                f = dict(f)
                f["program"] = program
                failures.append(f)
    return {"leg": name, "kind": "enumeration (not seeded search)", "cases": n, "exhaustive": tier == "thorough" and not name.startswith("vlq"), "note": "0..70000 densely plus +-300 around 128^k and below 2^28" if name.startswith("vlq") else "", "failures": failures}


def describe(prop):
    common_real = [
        "mingus.midi.midi_file_out (write_Note/NoteContainer/Bar/Track/Composition, MidiFile)",
        "mingus.midi.midi_track.MidiTrack",
        "mingus.containers (Note, NoteContainer, Bar, Track, Composition, instruments)",
        "io.BufferedWriter / io.BufferedReader of the standard library (buffer size randomised per run)",
    ]
    if prop == "C16":
        return {
            "rule": "Each run builds tracks/compositions through the library API (bars filled from a symbolic value vocabulary, all 30 keys, rests in every position, instruments, names) and writes 1-4 objects to a simulated disk with the five writers or through the public MidiFile/MidiTrack classes, fault-free, under short raw writes, or under an injected ENOSPC/EIO/EACCES at a seeded byte offset. The bytes that reached the simulated disk are decoded by an independent SMF reader and compared clause by clause with a tick model. Non-trivial = at least one write reached the disk. Distinct = distinct run shape (writer kinds, mode, #tracks, key classes, value classes, rest positions, instrument kinds, repeat, fault kind, buffer size).",
            "state_measure": "not used for C16",
            "fault_kinds": ["short_write", "write_error", "open_error"],
            "probes": ["instrument_attached_late", "same_bar_object_added_again", "container_not_ascending_after_item_assignment", "object_rewritten_after_edit", "path_overwritten_by_shorter_file", "leading_rest_with_midi_instrument", "rounding_value", "name_length_2_byte_vlq", "delta_needs_2_byte_vlq", "write_error_raised", "write_error_returned_false", "error_plan_did_not_bite", "get_midi_data_observed", "builder_refused", "skipped_precondition", "theory_chatter_ops", "theory_chatter_call_refused", "theory_chatter_call_cut_short", "music_transposed_after_building", "transposition_not_semitone_exact", "iteration_left_early_before_use", "bar_object_shared_by_two_tracks", "library_bar_differs_from_what_was_built", "library_track_differs_from_what_was_built", "library_composition_differs_from_what_was_built"],
            "clauses": ["C16.frame", "C16.noteon", "C16.noteoff", "C16.single", "C16.repeat", "C16.tempo", "C16.name", "C16.program", "C16.timesig", "C16.keysig", "C16.vlq", "C16.success_implies_complete", "C16.stall"],
            "components_real": common_real,
            "components_stub": ["disk (dsim.simfs raw file + fault plans)", "print"],
            "assumptions": [
                "notes are within MIDI range (pitch+12 in 0..127), bpm is an integer 4..1000, meters have power-of-two units and count <= 255, names are ASCII; containers carrying a bpm attribute are not generated",
                "ticks of an entry = round(288*length) with Python's round on the exact rational (ties to even), as the statement's round(288/value)",
                "under an injected write/open error the call may return False or raise and the torn file is exempt; only 'reported True => complete bytes' is demanded",
                "the bank select value is not constrained (the statement names none)",
                "the VLQ leg is plain input enumeration, labelled as such",
            ],
        }
    return {
        "rule": "Each run is a history over a small simulated disk: compositions built through the library API are written (write_Composition/write_Track or the public classes), paths are overwritten, stored bytes are damaged in the regions the statement names (MThd tag, format field, MTrk tags), and files are read back with a fresh or a reused reader, under transparent short reads/writes. What is read back is compared with a model of the last object written to that path. Non-trivial = at least one file operation. Distinct = distinct run shape (write shapes as in C16 x history pattern x reader kind x flip region x fault kind).",
        "state_measure": "not used for C17",
        "fault_kinds": ["short_write", "short_read", "stored_flip"],
        "probes": ["instrument_attached_late", "same_bar_object_added_again", "container_not_ascending_after_item_assignment", "track_begins_with_rest", "consecutive_rests", "reader_reused", "reader_reused_after_reject", "flip_MThd", "flip_format", "flip_MTrk", "flip_whole_tag", "key_read_back_C", "key_read_back_major_natural", "key_read_back_major_accidental", "key_read_back_minor", "builder_refused", "skipped_precondition", "theory_chatter_ops", "theory_chatter_call_refused", "theory_chatter_call_cut_short", "music_transposed_after_building", "transposition_not_semitone_exact", "iteration_left_early_before_use", "bar_object_shared_by_two_tracks", "library_bar_differs_from_what_was_built", "library_track_differs_from_what_was_built", "library_composition_differs_from_what_was_built", "c17_track_outside_domain_not_whole_ticks"],
        "clauses": ["C17.tracks", "C17.sequence", "C17.dynamics", "C17.tempo", "C17.name", "C17.program", "C17.meter", "C17.key", "C17.vlq_inverse", "C17.reject", "C17.stall"],
        "components_real": common_real + ["mingus.midi.midi_file_in (MidiFile parsers, MIDI_to_Composition)"],
        "components_stub": ["disk (dsim.simfs raw file + fault plans)", "print"],
        "assumptions": [
            "velocities 1..127, values with whole tick counts, integer bpm 4..1000; meter/key clauses only for tracks in one meter and key",
            "sequence normal form: (ticks, set of pitches) per entry, adjacent rests merged, trailing rests dropped; ticks of a read entry = round(288/value)",
            "truncation, torn writes and flips outside the named regions are not injected (the statement is silent about them)",
            "the bpm sweep, the header-flip sweep and the VLQ leg are enumeration, labelled as such",
        ],
    }
