# -*- coding: utf-8 -*-
"""C15 engine: simulated clients interleaving calls on one process, a hostile
but legal caller that mutates what it was given, and a cold interpreter as
oracle.

Real code: the whole public query API of mingus.core, every container class,
midi_file_out.MidiFile, MidiTrack, Sequencer, fft._find_log_index.
Stubs: none inside the library; the clients are simulated.
"""
from __future__ import annotations

import collections
import copy
import hashlib
import json

from .. import kernel
from ..catalog import CATALOG
from ..kernel import Trace

ENGINE_ID = 15
NAME = "shared"

MODS = {}
COLD = {}  # entry index -> encoded cold value
COLD_LOOKUP = {}  # freq index -> cold index
COLD_DEFAULTS = None
FREQS = []


def _freqs():
    out = [0.0, -1.0, 1e-9, 1e9, 5.0, 8.0]
    for n in range(0, 129):
        f = 2 ** ((n - 57) / 12.0) * 440
        out.append(f)
        if n % 4 == 0:
            out.append(f * (1 + 1e-9))
            out.append(f * (1 - 1e-9))
        if n % 3 == 0:
            out.append(f * 1.03)
    return out


def enc(x, depth=0):
    if depth > 7:
        return "<deep>"
    if x is None or isinstance(x, (bool, int, str)):
        return x
    if isinstance(x, float):
        return ["f", repr(x)]
    if isinstance(x, list):
        return ["L"] + [enc(i, depth + 1) for i in x]
    if isinstance(x, tuple):
        return ["T"] + [enc(i, depth + 1) for i in x]
    if isinstance(x, dict):
        return ["D"] + sorted(([enc(k, depth + 1), enc(v, depth + 1)] for k, v in x.items()), key=lambda p: json.dumps(p, sort_keys=True))
    if isinstance(x, (set, frozenset)):
        return ["S"] + sorted((enc(i, depth + 1) for i in x), key=lambda p: json.dumps(p, sort_keys=True))
    if isinstance(x, (bytes, bytearray)):
        return ["b", bytes(x).hex()]
    cls = type(x).__name__
    try:
        inst = vars(x)
    except TypeError:
        return ["O", cls]
    # what the object *shows*: instance attributes plus the mutable class-level
    # data it falls back to (a list that lives on the class is shared state)
    attrs = {}
    for c in reversed(type(x).__mro__):
        for k, v in vars(c).items():
            if k.startswith("_") or callable(v) or isinstance(v, (property, staticmethod, classmethod)):
                continue
            if isinstance(v, (list, dict, set, bytearray)) and len(v) <= 64:
                attrs[k] = v
    attrs.update(inst)
    return ["O", cls] + sorted([k, enc(v, depth + 1)] for k, v in attrs.items() if not k.startswith("__"))


def call_entry(e):
    fn = getattr(MODS[e["mod"]], e["fn"])
    args = copy.deepcopy(e["args"])
    kw = copy.deepcopy(e.get("kw", {}))
    then = copy.deepcopy(e["then"][1:]) if "then" in e else []
    try:
        r = fn(*args, **kw)
        if "then" in e:
            r = getattr(r, e["then"][0])(*then)
        out = ("ok", r)
    except Exception as ex:  # "rejects X" entries are comparable too
        out = ("exc", type(ex).__name__)
    # everything the caller handed over: positional, keyword and method arguments
    return out, [args, kw, then]


def _cold_entry(i):
    (kind, r), args = call_entry(CATALOG[i])
    return ["EXC", r] if kind == "exc" else enc(r)


def _cold_lookup(i):
    import mingus.extra.fft as fft

    try:
        return fft._find_log_index(FREQS[i])
    except Exception as ex:
        return "EXC:" + type(ex).__name__


CLASS_DEFAULTS = [
    ("Suite", "compositions"), ("Bar", "bar"), ("Bar", "key"), ("Bar", "meter"), ("Bar", "current_beat"), ("Bar", "length"),
    ("Track", "bars"), ("Track", "instrument"), ("Track", "name"), ("NoteContainer", "notes"), ("Composition", "tracks"),
    ("Composition", "selected_tracks"), ("Composition", "title"), ("OutMidiFile", "tracks"), ("OutMidiFile", "time_division"),
    ("MidiTrack", "track_data"), ("MidiTrack", "delta_time"), ("MidiTrack", "delay"), ("MidiTrack", "bpm"), ("MidiTrack", "instrument"),
    ("Instrument", "range"), ("Instrument", "tuning"), ("MidiInstrument", "names"), ("Note", "name"), ("Note", "octave"), ("Note", "channel"), ("Note", "velocity"),
    ("InMidiFile", "bpm"), ("InMidiFile", "meter"), ("InMidiFile", "bytes_read"),
]
CLASSES = {}


def _defaults():
    # an attribute that a refactoring removed from the class is simply "absent" (and must stay absent)
    return [enc(getattr(CLASSES[c], a, "<absent>")) for c, a in CLASS_DEFAULTS]


def preload(prop, workers=0):
    global COLD_DEFAULTS, FREQS
    kernel.import_sut()
    import mingus.core
    import mingus.core.notes, mingus.core.intervals, mingus.core.keys, mingus.core.scales, mingus.core.chords  # noqa
    import mingus.core.progressions, mingus.core.value, mingus.core.meter  # noqa
    import mingus.containers as C
    import mingus.containers.instrument as I
    import mingus.midi.midi_file_out as mfo
    import mingus.midi.midi_file_in as mfi
    import mingus.midi.midi_track as mt
    import mingus.midi.sequencer as sq
    import mingus.extra.fft  # noqa

    for m in ("notes", "intervals", "keys", "scales", "chords", "progressions", "value", "meter"):
        MODS[m] = getattr(mingus.core, m)
    MODS.update(containers=C, instrument=I, midi_track=mt, midi_file_out=mfo, midi_file_in=mfi, sequencer=sq)
    CLASSES.update(
        Suite=C.Suite, Bar=C.Bar, Track=C.Track, NoteContainer=C.NoteContainer, Composition=C.Composition, Note=C.Note,
        OutMidiFile=mfo.MidiFile, InMidiFile=mfi.MidiFile, MidiTrack=mt.MidiTrack, Instrument=I.Instrument, MidiInstrument=I.MidiInstrument,
        MidiPercussionInstrument=I.MidiPercussionInstrument,
        Piano=I.Piano, Sequencer=sq.Sequencer,
    )
    FREQS = _freqs()
    if COLD:
        return
    COLD_DEFAULTS = _defaults()
    # the cold interpreter: every reference value is the answer of a process that
    # has imported the library and made this one call only.  The table is rebuilt
    # from the working tree at the start of every check (in parallel when asked).
    n, m = len(CATALOG), len(FREQS)
    if workers and workers > 1:
        import concurrent.futures as cf
        import multiprocessing

        step = 64
        with cf.ProcessPoolExecutor(max_workers=workers, mp_context=multiprocessing.get_context("fork")) as ex:
            parts = list(ex.map(_cold_range, [(a, min(n + m, a + step)) for a in range(0, n + m, step)]))
        vals = [v for p in parts for v in p]
    else:
        vals = _cold_range((0, n + m))
    for i, r in enumerate(vals):
        if isinstance(r, dict) and "harness_error" in r:
            raise kernel.HarnessError("cold evaluation %d failed: %s" % (i, r["harness_error"]))
        if i < n:
            COLD[i] = json.dumps(r, sort_keys=True)
        else:
            COLD_LOOKUP[i - n] = r


def _cold_range(ab):
    out = []
    n = len(CATALOG)
    for i in range(ab[0], ab[1]):
        if i < n:
            out.append(kernel.forked(_cold_entry, (i,), alarm=20))
        else:
            out.append(kernel.forked(_cold_lookup, (i - n,), alarm=20))
    return out


def prepare_main(prop, workers):
    preload(prop, workers)




# ---------------------------------------------------------------------------
# the hostile-but-legal caller

SCRIBBLES = ["append", "pop", "clear", "reverse", "set0", "inner_append", "inner_clear", "inner_set0", "dict_del", "dict_set", "attr"]


def scribble(obj, how):
    """Mutate a value the library handed out.  Returns True if something changed."""
    try:
        if how in ("append", "pop", "clear", "reverse", "set0"):
            if not isinstance(obj, list):
                return False
            if how == "append":
                obj.append("Zb")
            elif how == "pop":
                if not obj:
                    return False
                obj.pop()
            elif how == "clear":
                if not obj:
                    return False
                del obj[:]
            elif how == "reverse":
                if len(obj) < 2 or obj == obj[::-1]:
                    return False
                obj.reverse()
            else:
                if not obj:
                    return False
                obj[0] = "Zb"
            return True
        if how.startswith("inner_"):
            if not isinstance(obj, (list, tuple)):
                return False
            for x in obj:
                if isinstance(x, (list, dict)) or hasattr(x, "__dict__"):
                    return scribble(x, how[len("inner_"):] if isinstance(x, list) else ("dict_set" if isinstance(x, dict) else "attr"))
            return False
        if how in ("dict_del", "dict_set"):
            if not isinstance(obj, dict):
                return False
            if how == "dict_del":
                if not obj:
                    return False
                del obj[sorted(obj, key=repr)[0]]
            else:
                obj["zz"] = "poison"
            return True
        if how == "attr":
            if isinstance(obj, (list, tuple, dict, str, int, float, bool)) or obj is None or not hasattr(obj, "__dict__"):
                return False
            ks = sorted(vars(obj))
            if not ks:
                return False
            setattr(obj, ks[0], "poison")
            return True
    except Exception:
        return False
    return False


# ---------------------------------------------------------------------------
# operation scripts on a client's own instances


def _steps():
    C = CLASSES
    Note, NC, Bar, Track, Comp = C["Note"], C["NoteContainer"], C["Bar"], C["Track"], C["Composition"]
    return {
        "Suite": [
            lambda o: o.add_composition(Comp()),
            lambda o: o + Comp(),
            lambda o: o.set_title("t", "s"),
            lambda o: o.set_author("a", "e"),
        ],
        "Composition": [
            lambda o: o.add_track(Track()),
            lambda o: o + Track(),
            lambda o: o.add_note("C"),
            lambda o: o + "E",
            lambda o: o.set_title("t"),
            lambda o: o.empty(),
            lambda o: o.selected_tracks.append(0),
            lambda o: o.reset(),
            lambda o: o.set_author("a", "e"),
        ],
        "Track": [
            lambda o: o.add_notes("C", 4),
            lambda o: o.add_notes(["E", "G"], 8),
            lambda o: o.add_bar(Bar()),
            lambda o: o + "E",
            lambda o: o.from_chords(["C", "Am"], 2),
            lambda o: setattr(o, "name", "mine"),
            lambda o: o.transpose("3"),
            lambda o: o.augment(),
        ],
        "Bar": [
            lambda o: o.place_notes("C", 4),
            lambda o: o.place_notes(["E", "G"], 8),
            lambda o: o.place_rest(8),
            lambda o: o + "E",
            lambda o: o.remove_last_entry() if len(o) else None,
            lambda o: o.empty(),
            lambda o: o.set_meter((3, 4)),
            lambda o: o.transpose("3"),
            lambda o: o.augment(),
        ],
        "NoteContainer": [
            lambda o: o.add_note("C"),
            lambda o: o.add_notes(["E", "G"]),
            lambda o: o.add_note(Note("B", 5)),
            lambda o: o.remove_note("E"),
            lambda o: o.empty(),
            lambda o: o.transpose("3"),
            lambda o: o + "B",
            lambda o: o - "C",
            lambda o: o.augment(),
        ],
        "Note": [
            lambda o: o.set_note("E", 5),
            lambda o: o.transpose("3"),
            lambda o: o.augment(),
            lambda o: o.change_octave(1),
            lambda o: o.set_velocity(90),
            lambda o: o.set_channel(5),
            lambda o: o.from_int(50),
            lambda o: o.empty(),
            lambda o: o.from_hertz(880),
            lambda o: o.from_shorthand("c''"),
            lambda o: o.remove_redundant_accidentals(),
        ],
        "OutMidiFile": [
            lambda o: o.tracks.append(C["MidiTrack"]()),
            lambda o: o.reset(),
            lambda o: o.get_midi_data(),
        ],
        "InMidiFile": [
            lambda o: setattr(o, "bytes_read", o.bytes_read + 7),
            lambda o: o.parse_time_division(b"\x00\x60"),
            lambda o: o.bytes_to_int(b"\x01\x02"),
        ],
        "MidiTrack": [
            lambda o: o.play_Note(Note("C")),
            lambda o: o.set_deltatime(5),
            lambda o: o.set_tempo(90),
            lambda o: o.reset(),
            lambda o: o.set_instrument(1, 5),
            lambda o: o.play_NoteContainer(NC(["C", "E"])),
            lambda o: o.set_meter((3, 4)),
        ],
        "Sequencer": [
            lambda o: o.attach(C["Note"]("C")),
            lambda o: o.detach(o.listeners[0]) if o.listeners else None,
            lambda o: o.control_change(1, 7, 100),
        ],
        "Instrument": [
            lambda o: o.set_range([Note("C", 2), Note("C", 5)]),
            lambda o: setattr(o, "tuning", "mine"),
            lambda o: setattr(o, "name", "mine"),
        ],
        "MidiPercussionInstrument": [
            lambda o: o.mapping.__setitem__(35, "Kick"),
            lambda o: o.mapping.pop(36, None),
            lambda o: setattr(o, "name", "my kit"),
            lambda o: o.bass_drum_1(),
        ],
        "MidiInstrument": [
            lambda o: setattr(o, "instrument_nr", 9),
            lambda o: setattr(o, "name", "Violin"),
            lambda o: o.set_range([Note("C", 2), Note("C", 5)]),
        ],
    }


PURE_THEN = {"ascending", "descending", "degree", "to_hertz", "to_shorthand", "determine", "note_in_range", "can_play_notes", "get_midi_data", "int_to_varbyte"}
OBJ_ENTRIES = [i for i, e in enumerate(CATALOG) if "then" in e and e["then"][0] in PURE_THEN]

INST_CLASSES = ["MidiPercussionInstrument", "Suite", "Composition", "Track", "Bar", "NoteContainer", "Note", "OutMidiFile", "InMidiFile", "MidiTrack", "Sequencer", "Instrument", "MidiInstrument"]

NOTE_MUT = [
    lambda n: n.transpose("3"),
    lambda n: n.augment(),
    lambda n: n.set_velocity(3),
    lambda n: n.set_channel(9),
    lambda n: n.change_octave(1),
    lambda n: n.set_note("D", 2),
    lambda n: n.from_int(30),
]
NC_MUT = [
    lambda c: c.transpose("5"),
    lambda c: c.augment(),
    lambda c: c.diminish(),
    lambda c: c.add_note("B"),
    lambda c: c.remove_note("C"),
    lambda c: c.empty(),
    lambda c: c.notes[0].octave_up() if c.notes else None,
    lambda c: c.notes[0].set_velocity(1) if c.notes else None,
    lambda c: c.transpose("3", False),
]


class Exec(object):
    def __init__(self, prop, program):
        self.program = program
        self.trace = Trace()
        self.faults = collections.Counter()
        self.probes = collections.Counter()
        self.clauses = collections.Counter()
        self.failures = []
        self.shape = []
        self.clients = collections.defaultdict(lambda: {"results": [], "args": []})
        self.inst = {}
        self.snap = {}
        self.scribbled = []  # function names whose results/arguments were mutated so far
        self.called = set()
        self.states = []
        self.order = []
        self.steps = _steps()
        self.nq = 0

    def fail(self, clause, detail, **features):
        self.failures.append({"clause": clause, "detail": detail, "features": features})
        self.trace.ev("fail", clause, detail)

    def run(self):
        for op in self.program["ops"]:
            h = getattr(self, "do_" + op["op"], None)
            if h is not None:
                self.order.append(op.get("c", 9))
                try:
                    h(op)
                except kernel.SimBudgetExceeded as e:
                    if not kernel.wall_stall(e):
                        raise
                    self.fail("C15.stall", "step %s did not return (wall-clock backstop)" % op["op"], op=op["op"], wall=True)
                    break
        return self.result()

    # -- queries ---------------------------------------------------------------
    def do_query(self, op):
        i = op["e"] % len(CATALOG)
        e = CATALOG[i]
        name = e["mod"] + "." + e["fn"]
        before = json.dumps(enc([e["args"], e.get("kw", {}), e["then"][1:] if "then" in e else []]), sort_keys=True)
        (kind, r), args = call_entry(e)
        got = json.dumps(["EXC", r] if kind == "exc" else enc(r), sort_keys=True)
        self.nq += 1
        st = hashlib.sha256(("%d|%s|%s" % (i, ",".join(sorted(self.called)), ",".join(sorted(set(self.scribbled))))).encode()).hexdigest()
        self.states.append(int(st[:12], 16))
        self.trace.ev("query", op.get("c"), i, name, hashlib.sha256(got.encode()).hexdigest()[:16])
        self.shape.append("q:" + e["mod"])
        self.clauses["C15.same_value"] += 1
        if self.scribbled:
            self.clauses["C15.result_private"] += 1
        if got != COLD[i]:
            poisoned = bool(self.scribbled)
            if poisoned:
                self.probes["mismatch_after_scribble"] += 1
            self.fail(
                "C15.result_private" if poisoned else "C15.same_value",
                "%s%r returned %s, a cold interpreter returns %s%s" % (name, tuple(e["args"]), got[:300], COLD[i][:300], ("; values of %s were mutated by their receiver earlier" % sorted(set(self.scribbled))[:4]) if poisoned else "; earlier calls: %s" % sorted(self.called)[:6]),
                fn=name,
            )
        self.clauses["C15.args_untouched"] += 1
        after = json.dumps(enc(args), sort_keys=True)
        if after != before:
            self.fail("C15.args_untouched", "%s modified its arguments: %s -> %s" % (name, before[:200], after[:200]), fn=name)
        if "substitute" == e["fn"] and len(e["args"]) > 2 and e["args"][2] >= 1:
            self.probes["substitution_depth_ge_1"] += 1
        if name in ("chords.tonic", "chords.I") and "progressions.to_chords" in set(self.scribbled):
            self.probes["function_name_api_after_numeral_scribble"] += 1
        if name in self.scribbled:
            self.probes["query_after_scribble_on_same_function"] += 1
        self.called.add(name)
        cl = self.clients[op.get("c", 0)]
        if kind == "ok":
            cl["results"].append((name, r))
        cl["args"].append((name, args))

    def do_obj_query(self, op):
        """the same question put again to an object the client already holds
        (a pure query method): the answer must equal the cold answer however
        often it was asked and whatever the receiver did to earlier answers"""
        if not OBJ_ENTRIES:
            return
        i = OBJ_ENTRIES[op["e"] % len(OBJ_ENTRIES)]
        e = CATALOG[i]
        name = e["mod"] + "." + e["fn"] + "." + e["then"][0]
        cl = self.clients[op.get("c", 0)]
        held = cl.setdefault("held", {})
        try:
            if i not in held:
                held[i] = getattr(MODS[e["mod"]], e["fn"])(*copy.deepcopy(e["args"]), **copy.deepcopy(e.get("kw", {})))
            else:
                self.probes["method_asked_again_on_held_object"] += 1
            r = getattr(held[i], e["then"][0])(*copy.deepcopy(e["then"][1:]))
            got = json.dumps(enc(r), sort_keys=True)
        except Exception as ex:
            r = None
            got = json.dumps(["EXC", type(ex).__name__], sort_keys=True)
        self.nq += 1
        self.clauses["C15.same_value"] += 1
        self.trace.ev("obj_query", op.get("c"), i, name, hashlib.sha256(got.encode()).hexdigest()[:16])
        self.shape.append("o:" + e["mod"])
        if got != COLD[i]:
            poisoned = bool(self.scribbled)
            self.fail("C15.result_private" if poisoned else "C15.same_value", "%s%r asked again on the same object returned %s, a fresh object in a cold interpreter returns %s" % (name, tuple(e["args"]), got[:300], COLD[i][:300]), fn=name)
        self.called.add(name)
        if r is not None:
            cl["results"].append((name, r))

    def do_scribble(self, op):
        cl = self.clients[op.get("c", 0)]
        if not cl["results"]:
            return
        name, r = cl["results"][op["r"] % len(cl["results"])]
        how = op["how"]
        if scribble(r, how):
            self.faults["scribble"] += 1
            self.scribbled.append(name)
            self.trace.ev("scribble", op.get("c"), name, how)
            self.shape.append("s:" + how)

    def do_reuse_arg(self, op):
        cl = self.clients[op.get("c", 0)]
        if not cl["args"]:
            return
        name, args = cl["args"][op["r"] % len(cl["args"])]
        for a in list(args[0]) + list(args[2]):
            if isinstance(a, list) and scribble(a, op["how"] if op["how"] in ("append", "pop", "clear", "reverse", "set0") else "append"):
                self.faults["reuse_arg"] += 1
                self.scribbled.append(name)
                self.trace.ev("reuse_arg", op.get("c"), name, op["how"])
                self.shape.append("a:" + op["how"])
                return

    # -- instances ---------------------------------------------------------------
    def _instance(self, c, cls):
        k = (c, cls)
        if k not in self.inst:
            try:
                self.inst[k] = CLASSES[cls]()
            except Exception as e:
                return None
            if cls == "Suite" and any(kk[1] == "Suite" and kk != k for kk in self.inst):
                self.probes["suite_created_after_sibling_added"] += 1
            self.snap[k] = json.dumps(enc(self.inst[k]), sort_keys=True)
            # creating an object must not disturb anybody either
            self._check_siblings(k, "create " + cls)
        return self.inst[k]

    def _check_siblings(self, acting, what):
        self.clauses["C15.siblings"] += 1
        for k, o in self.inst.items():
            if k == acting:
                continue
            now = json.dumps(enc(o), sort_keys=True)
            if now != self.snap[k]:
                self.fail("C15.siblings", "%s on client %d's %s changed client %d's %s: %s -> %s" % (what, acting[0], acting[1], k[0], k[1], self.snap[k][:200], now[:200]), actor=acting[1], victim=k[1])
                self.snap[k] = now
                return
        d = _defaults()
        for (c, a), was, now in zip(CLASS_DEFAULTS, COLD_DEFAULTS, d):
            if json.dumps(was, sort_keys=True) != json.dumps(now, sort_keys=True):
                if (c, a) in getattr(self, "_reported_defaults", set()):
                    continue
                self.__dict__.setdefault("_reported_defaults", set()).add((c, a))
                self.fail("C15.siblings", "%s on client %d's %s changed the class default %s.%s: %s -> %s" % (what, acting[0], acting[1], c, a, json.dumps(was)[:120], json.dumps(now)[:120]), actor=acting[1], victim="class_default:%s.%s" % (c, a))
                return

    def do_inst(self, op):
        cls = op["cls"]
        c = op.get("c", 0)
        o = self._instance(c, cls)
        if o is None:
            return
        steps = self.steps[cls]
        si = op["step"] % len(steps)
        try:
            steps[si](o)
            outcome = "ok"
        except Exception as e:
            outcome = type(e).__name__
        self.faults["instance_op"] += 1
        k = (c, cls)
        self.snap[k] = json.dumps(enc(o), sort_keys=True)
        self.trace.ev("inst", c, cls, si, outcome)  # not the snapshot: it may legitimately contain id()-like values
        self.shape.append("i:%s" % cls)
        self._check_siblings(k, "step %d" % si)

    # -- copies ------------------------------------------------------------------
    def do_copy(self, op):
        Note, NC = CLASSES["Note"], CLASSES["NoteContainer"]
        kind = op["kind"]
        self.clauses["C15.copy_independent"] += 1
        try:
            if kind == "note":
                spec = op.get("spec", ["C", 4, 3, 77])
                orig = Note(spec[0], spec[1], velocity=spec[3], channel=spec[2])
                cp = Note(orig)
                muts = NOTE_MUT
            else:
                orig = NC(op.get("names", ["C", "E", "G"]))
                cp = NC(orig)
                muts = NC_MUT
            a0, b0 = json.dumps(enc(orig), sort_keys=True), json.dumps(enc(cp), sort_keys=True)
            target, other, other0, tname = (orig, cp, b0, "original") if op.get("mutate") == "orig" else (cp, orig, a0, "copy")
            mi = op["how"] % len(muts)
            try:
                muts[mi](target)
            except Exception:
                pass
            now = json.dumps(enc(other), sort_keys=True)
            self.trace.ev("copy", kind, op.get("mutate"), mi, now == other0)
            self.shape.append("c:%s:%s" % (kind, op.get("mutate")))
            if now != other0:
                self.fail("C15.copy_independent", "mutating the %s (%s, step %d) changed the %s: %s -> %s" % (tname, kind, mi, "copy" if tname == "original" else "original", other0[:160], now[:160]), kind=kind)
        except Exception as e:
            self.trace.ev("copy_exc", type(e).__name__)

    # -- stateful lookup ------------------------------------------------------------
    def do_lookup(self, op):
        import mingus.extra.fft as fft

        i = op["i"] % len(FREQS)
        lb = kernel.LineBudget(5000)
        try:
            got = lb.call(fft._find_log_index, FREQS[i])
        except kernel.SimBudgetExceeded:
            self.fail("C15.lookup", "_find_log_index(%r) did not return within the line budget after earlier lookups" % FREQS[i], stall=True)
            return
        except Exception as e:
            got = "EXC:" + type(e).__name__
        self.clauses["C15.lookup"] += 1
        self.trace.ev("lookup", i, got)
        self.shape.append("l")
        prev = getattr(self, "_prev_lookup", None)
        if prev is not None:
            self.probes["lookup_same_slot" if prev == got else ("lookup_next_slot" if isinstance(got, int) and isinstance(prev, int) and got == prev + 1 else "lookup_restart")] += 1
        self._prev_lookup = got
        if got != COLD_LOOKUP[i]:
            self.fail("C15.lookup", "_find_log_index(%r) returned %r after earlier lookups, %r in a cold interpreter" % (FREQS[i], got, COLD_LOOKUP[i]), stall=False)

    # ------------------------------------------------------------------
    def result(self):
        return {
            "failures": self.failures,
            "faults": dict(self.faults),
            "probes": dict(self.probes),
            "clauses": dict(self.clauses),
            "ops": len(self.program["ops"]),
            "shape": "|".join(self.shape),
            "nontrivial": len(self.shape) >= 2,
            "sim": {"library_calls": self.nq + self.faults["instance_op"], "clients": len(set(self.order))},
            "digest": self.trace.digest(),
            "states": sorted(set(self.states)),
            "orders": [int(hashlib.sha256(json.dumps(self.order).encode()).hexdigest()[:12], 16)],
        }


def execute(prop, program):
    return Exec(prop, program).run()


# ---------------------------------------------------------------------------


def _by_fn():
    d = collections.defaultdict(list)
    for i, e in enumerate(CATALOG):
        d[e["mod"] + "." + e["fn"]].append(i)
    return d


BY_FN = _by_fn()
FN_NAMES = sorted(BY_FN)
FOCUS = ["containers.Note", "containers.Note", "scales.Diatonic", "scales.Dorian", "scales.Major", "containers.NoteContainer", "keys.get_notes", "chords.triads", "chords.sevenths", "progressions.to_chords", "progressions.substitute", "intervals.invert", "chords.tonic", "chords.I", "chords.triad", "chords.seventh", "keys.get_key_signature_accidentals", "chords.from_shorthand", "scales.Major", "chords.determine"]


BY_FN_EARLY = collections.defaultdict(list)
for _i, _e in enumerate(CATALOG):
    BY_FN_EARLY[_e["mod"] + "." + _e["fn"]].append(_i)


def _groups():
    """entries of one function that share the leading note/key of their first
    string argument: 'related but different arguments' (a memo with a wrong key
    shows only when such a pair is asked in the right order)"""
    import re

    g = collections.defaultdict(list)
    for i, e in enumerate(CATALOG):
        lead = ""
        for a in e["args"]:
            if isinstance(a, str):
                m = re.match(r"[A-Ga-g][#b]*", a)
                lead = m.group(0) if m else a[:1]
                break
        g[(e["mod"] + "." + e["fn"], lead)].append(i)
    groups = [v for v in g.values() if len(v) >= 2]
    weights = [len(v) ** 2 for v in groups]
    # explicit twins: argument tuples a sloppy memo key would confuse
    tw = collections.defaultdict(list)
    for i, e in enumerate(CATALOG):
        if "twin" in e:
            tw[e["twin"]].append(i)
    for v in tw.values():
        groups.append(v)
        weights.append(40)
    # one whole function at a time, any arguments
    for fn, v in BY_FN_EARLY.items():
        if len(v) >= 8:
            groups.append(v)
            weights.append(len(v))
    return groups, weights


GROUPS, GROUP_WEIGHTS = _groups()


def generate(rng, prop, tier):
    nclients = rng.choice([2, 2, 3, 4])
    cfg = {
        "clients": nclients,
        "mix": rng.choice(["query", "query", "scribble", "scribble", "instances", "lookup", "copy", "all", "all", "burst", "burst", "burst"]),
        "focus_p": rng.choice([0.0, 0.3, 0.7]),
    }
    ops = []
    n = rng.randrange(4, 16 * nclients // 2 + 4)
    mix = cfg["mix"]

    def q(c):
        if rng.random() < cfg["focus_p"]:
            fn = rng.choice(FOCUS)
        else:
            fn = rng.choice(FN_NAMES)
        return {"op": "query", "c": c, "e": rng.choice(BY_FN[fn])}

    last_q = {}
    if mix == "burst":
        # several different questions to one function about one tonic/root, from any client, in a seeded order,
        # optionally with a mutation of a returned value in between
        for _ in range(rng.choice([1, 1, 2])):
            grp = rng.choices(GROUPS, GROUP_WEIGHTS)[0]
            picks = [rng.choice(grp) for _ in range(min(len(grp) * 2, rng.choice([4, 6, 8, 10])))]
            for e in picks:
                c = rng.randrange(nclients)
                ops.append({"op": "query", "c": c, "e": e})
                if rng.random() < 0.1:
                    ops.append({"op": "scribble", "c": c, "r": rng.randrange(8), "how": rng.choice(SCRIBBLES)})
        return {"prop": prop, "cfg": cfg, "ops": ops}
    for _ in range(n):
        c = rng.randrange(nclients)
        r = rng.random()
        if mix == "query" or (mix == "all" and r < 0.35):
            o = q(c)
            last_q[c] = o["e"]
            ops.append(o)
        elif mix == "scribble" or (mix == "all" and r < 0.6):
            rr = rng.random()
            if rr < 0.25:
                # ask an object the client holds, mutate what came back, ask the same object again
                e = rng.randrange(10 ** 6)
                ops.append({"op": "obj_query", "c": c, "e": e})
                if rng.random() < 0.7:
                    ops.append({"op": "scribble", "c": c, "r": -1, "how": rng.choice(SCRIBBLES[:8])})
                ops.append({"op": "obj_query", "c": c, "e": e})
            elif rr < 0.45 or c not in last_q:
                o = q(c)
                last_q[c] = o["e"]
                ops.append(o)
            elif rr < 0.8:
                ops.append({"op": "scribble", "c": c, "r": rng.randrange(8), "how": rng.choice(SCRIBBLES)})
                # the same question again, from anyone, possibly through a sibling function
                if rng.random() < 0.7:
                    c2 = rng.randrange(nclients)
                    ops.append({"op": "query", "c": c2, "e": last_q[c]})
            else:
                ops.append({"op": "reuse_arg", "c": c, "r": rng.randrange(8), "how": rng.choice(SCRIBBLES[:5])})
        elif mix == "instances" or (mix == "all" and r < 0.8):
            ops.append({"op": "inst", "c": c, "cls": rng.choice(INST_CLASSES), "step": rng.randrange(12)})
        elif mix == "lookup" or (mix == "all" and r < 0.9):
            pat = rng.choice(["asc", "desc", "jump", "same"])
            start = rng.randrange(len(FREQS) if FREQS else 300)
            for j in range(rng.randrange(1, 6)):
                i = start + j if pat == "asc" else (start - j if pat == "desc" else (start if pat == "same" else rng.randrange(300)))
                ops.append({"op": "lookup", "c": c, "i": i % 300})
        else:
            kind = rng.choice(["note", "nc"])
            o = {"op": "copy", "c": c, "kind": kind, "mutate": rng.choice(["orig", "copy"]), "how": rng.randrange(12)}
            if kind == "nc":
                o["names"] = rng.choice([["C", "E", "G"], ["A", "C"], ["C"], ["D", "F#", "A", "C"]])
            else:
                o["spec"] = [rng.choice(["C", "F#", "Bb"]), rng.randrange(1, 7), rng.randrange(16), rng.randrange(128)]
            ops.append(o)
    return {"prop": prop, "cfg": cfg, "ops": ops}


def simplify_op(prop, op):
    out = []
    if op.get("c", 0) != 0:
        out.append(dict(op, c=0))
    if op["op"] == "scribble" and op["how"] != "append":
        out.append(dict(op, how="append"))
    if op["op"] == "scribble" and op["r"] != 0:
        out.append(dict(op, r=0))
    return out


def tiers(prop):
    return {"quick": 16000, "thorough": 800000}


def legs(prop, tier):
    return []


def describe(prop):
    fns = sorted(BY_FN)
    return {
        "rule": "Each run interleaves 2-4 simulated clients on one process, one library call per step (the seeded schedule is the sequence of client ids): queries from a catalog of %d (function, arguments) entries covering %d public functions of mingus.core, mutation of values the library returned or of arguments it was given (the injected fault), operation scripts on the client's own container/MIDI/sequencer instances, copies, and stateful frequency lookups. Every query result is compared with the value a cold interpreter (forked, first and only call) returns. Non-trivial = at least two effective steps. Distinct = distinct run shape (sequence of step kinds with module / class / scribble kind)." % (len(CATALOG), len(fns)),
        "state_measure": "distinct pairs (catalog entry, set of function names called before it in the process + set of function names whose results/arguments were mutated before it)",
        "fault_kinds": ["scribble", "reuse_arg", "instance_op"],
        "probes": ["method_asked_again_on_held_object", "mismatch_after_scribble", "query_after_scribble_on_same_function", "function_name_api_after_numeral_scribble", "substitution_depth_ge_1", "suite_created_after_sibling_added", "lookup_same_slot", "lookup_next_slot", "lookup_restart"],
        "clauses": ["C15.same_value", "C15.result_private", "C15.args_untouched", "C15.siblings", "C15.copy_independent", "C15.lookup", "C15.stall"],
        "components_real": ["mingus.core.{notes,intervals,keys,scales,chords,progressions,value,meter} public functions: " + ", ".join(fns), "mingus.containers classes", "mingus.midi.midi_file_out.MidiFile, midi_file_in.MidiFile, midi_track.MidiTrack, sequencer.Sequencer", "mingus.extra.fft._find_log_index"],
        "components_stub": ["none inside the library; clients and their schedule are simulated; the oracle is a cold interpreter process per catalog entry"],
        "assumptions": [
            "the unit of interleaving is the call (the statement speaks of calls; the library has no threads)",
            "objects are compared through a canonical deep encoding (class name + attributes, exceptions by class name)",
            "each client's instances are private object graphs; sharing that a caller builds on purpose is not generated",
        ],
    }
