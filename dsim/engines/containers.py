# -*- coding: utf-8 -*-
"""C11-C14 engine: operation-and-refusal histories of the container classes
against tiny exact reference models (DESIGN.md section 4).

This is the degenerate end of the technique: there is no clock, I/O or
concurrency here because none exists in the code; what is simulated is the
history (order of operations, refused and raising operations placed right
after state changes), what is searched is the seeded space of histories, and
what is reported is a minimised, exactly replayable op list.
All code under test is real; there are no stubs.
"""
from __future__ import annotations

import collections
import hashlib
import json
from fractions import Fraction

from .. import kernel, score, world
from ..kernel import LineBudget, SimBudgetExceeded, Trace

ENGINE_ID = 11
NAME = "containers"

NAT = score.NATURAL
LET = score.LETTERS


def preload(prop):
    kernel.import_sut()
    import mingus.containers  # noqa
    import mingus.containers.instrument  # noqa
    import mingus.core.chords  # noqa
    import mingus.core.progressions  # noqa


def _h(obj):
    return int(hashlib.sha256(json.dumps(obj, sort_keys=True, default=kernel._enc_default).encode()).hexdigest()[:12], 16)


def in_octave(name):
    """spelled inside its octave: 0 <= natural + accidentals <= 11"""
    v = NAT[name[0]] + name.count("#") - name.count("b")
    return 0 <= v <= 11


class Base(object):
    def __init__(self, prop, program):
        self.prop = prop
        self.program = program
        self.trace = Trace()
        self.faults = collections.Counter()
        self.probes = collections.Counter()
        self.clauses = collections.Counter()
        self.failures = []
        self.shape = []
        self.states = []
        self.triples = []
        self.prev_kind = "start"
        self.nops = 0

    def fail(self, clause, detail, **features):
        self.failures.append({"clause": clause, "detail": detail, "features": features})
        self.trace.ev("fail", clause, detail)

    def note_outcome(self, kind, outcome, state):
        self.triples.append(_h([self.prev_kind, kind, outcome]))
        self.prev_kind = kind
        self.states.append(_h(state))
        self.shape.append("%s:%s" % (kind, outcome))
        self.nops += 1
        if outcome in ("refused", "raised"):
            self.faults[outcome + "_operation"] += 1

    def run(self):
        for op in self.program["ops"]:
            h = getattr(self, "do_" + op["op"], None)
            if h is not None:
                try:
                    h(op)
                except SimBudgetExceeded as e:
                    if not kernel.wall_stall(e):
                        raise
                    self.fail(self.prop + ".stall", "operation %s did not return (wall-clock backstop)" % op["op"], op=op["op"], wall=True)
                    break
        self.finish()
        return {
            "failures": self.failures,
            "faults": dict(self.faults),
            "probes": dict(self.probes),
            "clauses": dict(self.clauses),
            "ops": len(self.program["ops"]),
            "shape": "|".join(self.shape),
            "nontrivial": self.nops >= 2,
            "sim": {"operations_applied": self.nops},
            "digest": self.trace.digest(),
            "states": sorted(set(self.states)),
            "orders": sorted(set(self.triples)),
        }

    def finish(self):
        pass

    def do_theory(self, op):
        # questions to the core modules between the container operations (see world.op_theory): not judged,
        # but whatever they leave behind in the theory layer must not change what the containers do next
        world.World.op_theory(self, op)


# ===========================================================================
# C13  Bar time accounting
# ===========================================================================


def is_pow2(u):
    try:
        f = Fraction(u)
    except Exception:
        return False
    if f < 1 or f.denominator != 1:
        return False
    n = f.numerator
    return n & (n - 1) == 0


def make_content(form):
    """form: JSON description -> library argument.
    ["name","C"] ["dash","C-5"] ["note","C",5] ["names",[...]] ["notes",[[n,o],...]] ["nc",[...names]] ["empty"] ["none"]"""
    from mingus.containers.note import Note
    from mingus.containers.note_container import NoteContainer

    k = form[0]
    if k == "name" or k == "dash":
        return form[1]
    if k == "note":
        return Note(form[1], form[2])
    if k == "names" or k == "dashes":
        return list(form[1])
    if k == "notes":
        return [Note(n, o) for n, o in form[1]]
    if k == "nc":
        return NoteContainer(list(form[1]))
    if k == "empty":
        return []
    return None


def content_names(form):
    k = form[0]
    if k == "name":
        return [form[1]]
    if k == "dash":
        return [form[1].split("-")[0]]
    if k == "note":
        return [form[1]]
    if k in ("names", "nc"):
        return list(form[1])
    if k == "dashes":
        return [x.split("-")[0] for x in form[1]]
    if k == "notes":
        return [n for n, o in form[1]]
    return []


def pc(name):
    return (NAT[name[0]] + name.count("#") - name.count("b")) % 12


def same_content(got_names, want_names):
    """A container drops notes of equal pitch (C12's rule), so enharmonic
    duplicates among the requested names may legitimately be absent: demand
    equal pitch-class sets and no foreign name."""
    got, want = set(got_names), set(want_names)
    try:
        return got <= want and set(pc(n) for n in got) == set(pc(n) for n in want)
    except Exception:
        return False  # something that is not a note name sits in the container


def safe_notes(nc):
    """(name, octave) of what a container position holds, whatever it is: the
    harness must be able to look at any state a changed library leaves behind"""
    if nc is None:
        return None
    out = []
    try:
        for n in nc:
            if hasattr(n, "name") and hasattr(n, "octave"):
                out.append((n.name, n.octave))
            else:
                out.append(("<%s %r>" % (type(n).__name__, n), None))
    except Exception as e:
        return [("<unreadable %s: %s>" % (type(nc).__name__, type(e).__name__), None)]
    return out


class MB(object):
    def __init__(self, obj, meter):
        self.obj = obj
        self.meter = tuple(meter)
        self.entries = []  # (len Fraction, value arg, names set or None)

    @property
    def length(self):
        return Fraction(self.meter[0]) / Fraction(self.meter[1]) if self.meter[1] else Fraction(0)

    def total(self):
        return sum((e[0] for e in self.entries), Fraction(0))

    def state(self):
        return [list(self.meter), [[e[0], sorted(e[2]) if e[2] is not None else None] for e in self.entries]]


class C13(Base):
    def __init__(self, prop, program):
        Base.__init__(self, prop, program)
        self.bars = []

    def pick(self, i):
        return self.bars[i % len(self.bars)] if self.bars else None

    # -- observation of the library object -------------------------------
    def snap(self, mb):
        b = mb.obj
        return (
            [[e[0], e[1], safe_notes(e[2])] for e in b.bar],
            b.current_beat,
            b.length,
            tuple(b.meter),
        )

    @staticmethod
    def same_snap(x, y):
        """entries, meter and rest pattern identical; beats and lengths equal up
        to float noise (a refused operation may recompute them)"""
        def close(p, q):
            try:
                return abs(Fraction(p) - Fraction(q)) <= Fraction(1, 10 ** 9)
            except Exception:
                return p == q
        if len(x[0]) != len(y[0]) or x[3] != y[3]:
            return False
        for e, f in zip(x[0], y[0]):
            if not close(e[0], f[0]) or e[1] != f[1] or e[2] != f[2]:
                return False
        return close(x[1], y[1]) and close(x[2], y[2])

    def invariants(self, mb, what, feats):
        b = mb.obj
        self.clauses["C13.starts"] += 1
        self.clauses["C13.total"] += 1
        if len(b.bar) != len(mb.entries):
            if not self.failures:
                # nothing was reported so far, so no operation on *this* bar explains the difference: entries
                # appeared or vanished although "a placement appends one entry" and "a refused one changes nothing"
                self.fail("C13.append", "after %s: the bar holds %d entries, the operations applied to it account for %d" % (what, len(b.bar), len(mb.entries)), **feats)
            # the model lost track (a failure was reported already); resynchronise narrowly
            self.probes["model_resync"] += 1
            return
        acc = Fraction(0)
        for i, (e, m) in enumerate(zip(b.bar, mb.entries)):
            if abs(Fraction(e[0]) - acc) > Fraction(1, 10 ** 9):
                self.fail("C13.starts", "after %s: entry %d starts at %r, the entries before it last %s" % (what, i, e[0], acc), **feats)
                break
            acc += m[0]
        tot = mb.total()
        if abs(Fraction(b.current_beat) - tot) > Fraction(1, 10 ** 9):
            self.fail("C13.total", "after %s: current beat %r, total length %s" % (what, b.current_beat, tot), **feats)
        elif abs(Fraction(b.current_beat) + Fraction(b.space_left()) - Fraction(b.length)) > Fraction(1, 10 ** 9) or abs(Fraction(b.length) - mb.length) > Fraction(1, 10 ** 9):
            self.fail("C13.total", "after %s: current beat %r + space left %r != length %r (meter %s)" % (what, b.current_beat, b.space_left(), b.length, mb.meter), **feats)
        # fullness
        self.clauses["C13.full"] += 1
        if mb.meter != (0, 0):
            rem = mb.length - tot
            full = b.is_full()
            if rem == 0 and mb.entries:
                self.probes["bar_exactly_full"] += 1
                if not full:
                    self.fail("C13.full", "after %s: bar filled exactly (%s of %s) but is_full() is False" % (what, tot, mb.length), **feats)
            elif rem > Fraction(2, 1000) or not mb.entries:
                if full:
                    self.fail("C13.full", "after %s: %s of %s used, is_full() is True" % (what, tot, mb.length), **feats)
            else:
                self.probes["fullness_dont_care_band"] += 1

    # -- ops ---------------------------------------------------------------
    def _meter_call(self, fn, meter, feats):
        """Returns 'ok' | 'raised' | 'stall'"""
        lb = LineBudget(20000)
        try:
            lb.call(fn)
            return "ok", None
        except SimBudgetExceeded:
            return "stall", None
        except Exception as e:
            return "raised", e

    def _judge_meter(self, what, meter, outcome, mb, feats):
        self.clauses["C13.meter"] += 1
        n, u = meter
        valid = (n == 0 and u == 0) or (is_pow2(u) and isinstance(n, int) and n > 0)
        if not isinstance(u, int):
            self.probes["fractional_beat_unit"] += 1
        if outcome == "stall":
            self.fail("C13.stall", "%s with meter %r never returns (line budget exceeded)" % (what, tuple(meter)), unit_kind="fractional" if not isinstance(u, int) else "int", **feats)
            return False
        if valid and outcome != "ok":
            self.fail("C13.meter", "%s rejected the valid meter %r" % (what, tuple(meter)), **feats)
            return False
        if not valid and outcome == "ok":
            self.fail("C13.meter", "%s accepted the meter %r whose unit is not a power of two" % (what, tuple(meter)), **feats)
            return True
        return outcome == "ok"

    def do_bar(self, op):
        from mingus.containers.bar import Bar

        meter = op["meter"]
        holder = {}

        def mk():
            holder["b"] = Bar(op.get("key", "C"), tuple(meter))

        outcome, exc = self._meter_call(mk, meter, {})
        ok = self._judge_meter("Bar()", meter, outcome, None, {"op": "bar"})
        self.trace.ev("bar", meter, outcome)
        if "b" in holder:
            mb = MB(holder["b"], meter)
            if outcome == "ok":
                self.bars.append(mb)
                self.clauses["C13.meter"] += 1
                if abs(Fraction(mb.obj.length) - mb.length) > Fraction(1, 10 ** 9):
                    self.fail("C13.meter", "Bar(meter=%r) has length %r" % (tuple(meter), mb.obj.length), op="bar")
                if self.bars[:-1]:
                    self.probes["bar_created_after_others_have_history"] += 1
                self.invariants(mb, "Bar()", {"op": "bar"})  # a new bar is empty, whatever happened to other bars before
        self.note_outcome("bar", {"ok": "accepted", "raised": "raised", "stall": "stall"}[outcome], [m.state() for m in self.bars])

    def do_set_meter(self, op):
        mb = self.pick(op["bar"])
        if mb is None:
            return
        meter = op["meter"]
        before = self.snap(mb)
        outcome, exc = self._meter_call(lambda: mb.obj.set_meter(tuple(meter)), meter, {})
        self._judge_meter("set_meter", meter, outcome, mb, {"op": "set_meter"})
        self.trace.ev("set_meter", op["bar"], meter, outcome)
        if outcome == "ok":
            mb.meter = tuple(mb.obj.meter) if len(mb.obj.meter) == 2 else tuple(meter)
            try:
                mb.meter = (meter[0], meter[1])
                if abs(Fraction(mb.obj.length) - mb.length) > Fraction(1, 10 ** 9):
                    self.fail("C13.meter", "set_meter(%r) gives length %r" % (tuple(meter), mb.obj.length), op="set_meter")
            except Exception:
                pass
        elif outcome == "raised":
            if not self.same_snap(self.snap(mb), before):
                self.fail("C13.refuse_atomic", "rejected set_meter(%r) changed the bar" % (tuple(meter),), op="set_meter")
        self.note_outcome("set_meter", {"ok": "accepted", "raised": "raised", "stall": "stall"}[outcome], [m.state() for m in self.bars])
        if outcome == "ok":
            self.invariants(mb, "set_meter%r" % (tuple(meter),), {"op": "set_meter"})

    def _place(self, op, kind):
        from mingus.containers.note_container import NoteContainer

        mb = self.pick(op["bar"])
        if mb is None:
            return
        form = op.get("content", ["none"])
        if kind == "rest":
            form = ["none"]
        if kind == "add":
            u = mb.meter[1] if mb.meter[1] != 0 else 4
            sym = [u, 0, 1, 1]
        else:
            sym = op["v"]
        ln = score.sym_length(sym)
        v = score.sym_value(sym)
        if op.get("as_float") and kind != "add":
            v = float(v)  # 4.0 is as legal as 4
        feats = {"op": kind, "tuplet": sym[2], "dots": sym[1]}
        before = self.snap(mb)
        exc = None
        try:
            content = make_content(form)
            if kind == "rest":
                ret = mb.obj.place_rest(v)
            elif kind == "add":
                ret = mb.obj + content
            else:
                ret = mb.obj.place_notes(content, v)
        except Exception as e:
            exc = e
            ret = None
        fits = mb.meter == (0, 0) or mb.total() + ln <= mb.length
        if mb.meter != (0, 0) and mb.total() + ln == mb.length:
            self.probes["placement_fills_bar_exactly"] += 1
            if sym[2] != 1:
                self.probes["tuplet_fills_bar_exactly"] += 1
        self.trace.ev(kind, op["bar"], form, sym, repr(ret), type(exc).__name__ if exc else None)
        self.clauses["C13.accept"] += 1
        outcome = "raised" if exc is not None else ("accepted" if ret is True else "refused")
        if exc is not None:
            self.fail("C13.accept", "%s(%r, %r) raised %s: %s" % (kind, form, v, type(exc).__name__, exc), **feats)
        elif ret is not True and ret is not False:
            self.fail("C13.accept", "%s returned %r, expected True or False" % (kind, ret), **feats)
        elif bool(ret) != fits:
            self.fail(
                "C13.accept",
                "%s of value %r (length %s) with %s of %s used was %s; exact arithmetic says it %s" % (kind, v, ln, mb.total(), mb.length if mb.meter != (0, 0) else "unbounded", "accepted" if ret else "refused", "fits" if fits else "does not fit"),
                fills_exactly=bool(mb.meter != (0, 0) and mb.total() + ln == mb.length),
                **feats
            )
        after = self.snap(mb)
        if ret is True and exc is None:
            self.clauses["C13.append"] += 1
            ok = len(after[0]) == len(before[0]) + 1 and after[0][:-1] == before[0]
            if ok:
                e = after[0][-1]
                raw = mb.obj.bar[-1][2]
                if e[1] != v:
                    ok = False
                elif form[0] == "none":
                    ok = raw is None
                else:
                    ok = isinstance(raw, NoteContainer) and same_content([x[0] for x in safe_notes(raw)], content_names(form))
            if not ok:
                self.fail("C13.append", "accepted %s(%r, %r) left entries %s (before: %d entries)" % (kind, form, v, after[0][-2:], len(before[0])), form=form[0], **feats)
            names = None if form[0] == "none" else set(content_names(form))
            mb.entries.append((ln, v, names))
            if len(after[0]) != len(mb.entries):
                mb.entries = mb.entries[: len(after[0])]
        else:
            self.clauses["C13.refuse_atomic"] += 1
            if not self.same_snap(after, before) and exc is None:
                self.fail("C13.refuse_atomic", "refused %s(%r, %r) changed the bar: %s -> %s" % (kind, form, v, before, after), **feats)
            elif not self.same_snap(after, before):
                # an op that raised promises nothing about partial effects: resynchronise from what is observed
                self._resync(mb)
        self.note_outcome(kind, outcome, [m.state() for m in self.bars])
        self.invariants(mb, "%s(%r)" % (kind, v), feats)

    def _resync(self, mb):
        self.probes["model_resync"] += 1
        out = []
        for e in mb.obj.bar:
            try:
                fr = Fraction(1) / Fraction(e[1]).limit_denominator(100000)
            except Exception:
                fr = Fraction(0)
            out.append((fr, e[1], None if e[2] is None else set(x[0] for x in safe_notes(e[2]))))
        mb.entries = out

    def do_place(self, op):
        self._place(op, "place")

    def do_rest(self, op):
        self._place(op, "rest")

    def do_add(self, op):
        self._place(op, "add")

    def do_remove_last(self, op):
        mb = self.pick(op["bar"])
        if mb is None or not mb.entries or len(mb.obj.bar) != len(mb.entries):
            return
        try:
            mb.obj.remove_last_entry()
            outcome = "accepted"
        except Exception as e:
            outcome = "raised"
            self.fail("C13.total", "remove_last_entry raised %s" % type(e).__name__, op="remove_last")
        self.trace.ev("remove_last", op["bar"], outcome)
        if outcome == "accepted":
            mb.entries.pop()
            if len(mb.obj.bar) != len(mb.entries):
                self.fail("C13.total", "remove_last_entry left %d entries, expected %d" % (len(mb.obj.bar), len(mb.entries)), op="remove_last")
                self._resync(mb)
        self.note_outcome("remove_last", outcome, [m.state() for m in self.bars])
        self.invariants(mb, "remove_last_entry", {"op": "remove_last"})

    def do_empty(self, op):
        mb = self.pick(op["bar"])
        if mb is None:
            return
        mb.obj.empty()
        mb.entries = []
        self.trace.ev("empty", op["bar"])
        self.note_outcome("empty", "accepted", [m.state() for m in self.bars])
        self.invariants(mb, "empty", {"op": "empty"})

    def do_setitem(self, op):
        from mingus.containers.note_container import NoteContainer

        mb = self.pick(op["bar"])
        if mb is None or not mb.entries or len(mb.obj.bar) != len(mb.entries):
            return
        i = op["index"] % len(mb.entries)
        form = op["content"]
        if form[0] == "none":
            return
        before = self.snap(mb)
        # the index as the caller writes it: non-negative or counted from the end
        li = i - len(mb.entries) if op.get("neg") else i
        if op.get("neg"):
            self.probes["negative_index_assignment"] += 1
        try:
            mb.obj[li] = make_content(form)
            exc = None
        except Exception as e:
            exc = e
        after = self.snap(mb)
        self.clauses["C13.edit_local"] += 1
        self.trace.ev("setitem", op["bar"], i, form, type(exc).__name__ if exc else None)
        if exc is not None:
            self.fail("C13.edit_local", "bar[%d] = %r raised %s" % (i, form, type(exc).__name__), op="setitem")
        else:
            others_same = all(a == b for j, (a, b) in enumerate(zip(before[0], after[0])) if j != i) and len(before[0]) == len(after[0])
            e = after[0][i]
            raw = mb.obj.bar[i][2]
            ok = others_same and before[1:] == after[1:] and e[0] == before[0][i][0] and e[1] == before[0][i][1] and isinstance(raw, NoteContainer) and same_content([x[0] for x in safe_notes(raw)], content_names(form))
            if not ok:
                self.fail("C13.edit_local", "bar[%d] = %r: bar went from %s to %s" % (i, form, before, after), op="setitem")
            mb.entries[i] = (mb.entries[i][0], mb.entries[i][1], set(content_names(form)))
        self.note_outcome("setitem", "raised" if exc else "accepted", [m.state() for m in self.bars])
        self.invariants(mb, "setitem", {"op": "setitem"})

    def do_place_at(self, op):
        mb = self.pick(op["bar"])
        if mb is None or not mb.entries or len(mb.obj.bar) != len(mb.entries):
            return
        sounding = [j for j, e in enumerate(mb.entries) if e[2] is not None]
        if not sounding:
            return
        i = sounding[op["index"] % len(sounding)]
        form = op["content"]
        if form[0] in ("none", "empty"):
            return
        before = self.snap(mb)
        at = mb.obj.bar[i][0]
        try:
            mb.obj.place_notes_at(make_content(form), at)
            exc = None
        except Exception as e:
            exc = e
        after = self.snap(mb)
        self.clauses["C13.edit_local"] += 1
        self.trace.ev("place_at", op["bar"], i, form, type(exc).__name__ if exc else None)
        if exc is not None:
            self.fail("C13.edit_local", "place_notes_at(%r, %r) raised %s: %s" % (form, at, type(exc).__name__, exc), op="place_at")
        else:
            others_same = all(a == b for j, (a, b) in enumerate(zip(before[0], after[0])) if j != i) and len(before[0]) == len(after[0])
            names = set(mb.entries[i][2]) | set(content_names(form))
            got = set(x[0] for x in after[0][i][2]) if after[0][i][2] is not None else set()
            ok = others_same and before[1:] == after[1:] and after[0][i][:2] == before[0][i][:2] and same_content(got, names)
            if not ok:
                self.fail("C13.edit_local", "place_notes_at(%r, %r): bar went from %s to %s" % (form, at, before, after), op="place_at")
            mb.entries[i] = (mb.entries[i][0], mb.entries[i][1], got)
        self.note_outcome("place_at", "raised" if exc else "accepted", [m.state() for m in self.bars])
        self.invariants(mb, "place_at", {"op": "place_at"})

    def do_query(self, op):
        mb = self.pick(op["bar"])
        if mb is None or len(mb.obj.bar) != len(mb.entries):
            return
        b = mb.obj
        self.clauses["C13.total"] += 1
        try:
            n = len(b)
            last = b[n - 1] if n else None
            if n != len(mb.entries) or (last is not None and last[1] != mb.entries[-1][1]):
                self.fail("C13.total", "len(bar)=%d / bar[-1]=%r disagree with %d accepted entries" % (n, last, len(mb.entries)), op="query")
        except Exception as e:
            self.fail("C13.total", "len/index raised %s" % type(e).__name__, op="query")
        self.trace.ev("query", op["bar"], len(mb.entries))
        self.note_outcome("query", "accepted", [m.state() for m in self.bars])
        self.invariants(mb, "query", {"op": "query"})


# ---------------------------------------------------------------------------

VALID_METERS = [[4, 4], [3, 4], [2, 4], [6, 8], [12, 8], [5, 4], [7, 8], [2, 2], [3, 8], [9, 8], [1, 1], [4, 16], [1, 4], [3, 2], [5, 16], [2, 1], [1, 8], [1, 16], [3, 32], [2, 32], [1, 32], [4, 64]]
INVALID_METERS = [[4, 0], [4, 3], [4, 5], [4, 6], [3, 12], [4, 7], [2, 100], [4, 0.5], [3, 1.5], [4, 2.5], [4, 0.25]]
# units next to powers of two, negative units, large units
NEAR_POW2 = [[4, u] for k in range(1, 12) for u in (2 ** k - 1, 2 ** k + 1, 2 ** k - 2, 2 ** k + 2) if u > 0 and u & (u - 1)] + [[4, -1], [3, -2], [4, -4], [2, -8], [4, -3], [4, 96], [4, 48], [4, 1000], [3, 24]]
BIG_VALID = [[3, 128], [5, 256], [2, 1024], [7, 2048], [4, 4096], [3, 8192], [2, 65536], [128, 4096]]
C13_NAMES = ["C", "E", "G", "A", "F#", "Bb", "D", "B#", "Cb"]


def gen_form(rng):
    r = rng.random()
    nm = lambda: rng.choice(C13_NAMES)
    if r < 0.2:
        return ["name", nm()]
    if r < 0.3:
        return ["dash", "%s-%d" % (nm(), rng.randrange(1, 7))]
    if r < 0.45:
        return ["note", nm(), rng.randrange(1, 7)]
    if r < 0.6:
        return ["names", sorted(set(nm() for _ in range(rng.randrange(1, 4))))]
    if r < 0.7:
        return ["notes", [[nm(), rng.randrange(2, 6)] for _ in range(rng.randrange(1, 4))]]
    if r < 0.8:
        return ["nc", sorted(set(nm() for _ in range(rng.randrange(1, 4))))]
    if r < 0.87:
        return ["empty"]
    return ["none"]


def gen_sym(rng, wide=True):
    base = rng.choice([[1, 4], [1, 2], 1, 2, 4, 8, 16, 32, 64, 128] if wide else [1, 2, 4, 8, 16, 32])
    r = rng.random()
    if r < 0.55:
        return [base, 0, 1, 1]
    if r < 0.75:
        return [base, rng.choice([1, 1, 2, 3, 4]), 1, 1]
    t = rng.choice([[3, 2], [3, 2], [5, 4], [7, 4]])
    return [base, 0, t[0], t[1]]


def gen_c13(rng, tier):
    cfg = {"mode": rng.choice(["fill", "fill", "random", "random", "meters", "edit"]), "n": rng.randrange(3, 40)}
    ops = []
    nb = rng.choice([1, 1, 2, 3])
    for _ in range(nb):
        m = rng.choice(VALID_METERS) if rng.random() < 0.9 else [0, 0]
        ops.append({"op": "bar", "key": rng.choice(world.ALL_KEYS), "meter": m})
    mode = cfg["mode"]
    if mode == "fill":
        # pack a bar to exactly its capacity with one tuplet family or a mix
        for b in range(nb):
            m = ops[b]["meter"]
            if m == [0, 0]:
                continue
            allow = set(rng.choice([["t3"], ["t5"], ["t7"], ["t3", "t5"], ["dot"], ["dot", "ddot", "t3", "t5", "t7"], []]))
            syms = score.fill_bar(rng, m[0], m[1], rng.choice([1, 2, 3, 4, 5, 6]), allow, max_entries=40)
            for s in syms:
                ops.append({"op": rng.choice(["place", "place", "rest"]), "bar": b, "content": gen_form(rng), "v": s})
                if rng.random() < 0.08:
                    ops.append({"op": "query", "bar": b})
            # right after the bar has become full: refused operations and undo
            for _ in range(rng.randrange(0, 4)):
                r = rng.random()
                if r < 0.4:
                    ops.append({"op": "place", "bar": b, "content": gen_form(rng), "v": gen_sym(rng)})
                elif r < 0.6:
                    ops.append({"op": "add", "bar": b, "content": gen_form(rng)})
                elif r < 0.8:
                    ops.append({"op": "remove_last", "bar": b})
                    ops.append({"op": "place", "bar": b, "content": gen_form(rng), "v": syms[-1]})
                else:
                    ops.append({"op": "set_meter", "bar": b, "meter": rng.choice(VALID_METERS + INVALID_METERS[:7])})
    for _ in range(cfg["n"] if mode != "fill" else rng.randrange(0, 8)):
        b = rng.randrange(nb)
        r = rng.random()
        if mode == "meters" and r < 0.5:
            ops.append({"op": "set_meter", "bar": b, "meter": rng.choice(VALID_METERS + INVALID_METERS + [[0, 0]] + BIG_VALID) if rng.random() < 0.6 else rng.choice(NEAR_POW2)})
        elif mode == "meters" and r < 0.6:
            ops.append({"op": "bar", "key": "C", "meter": rng.choice(VALID_METERS + INVALID_METERS + BIG_VALID) if rng.random() < 0.6 else rng.choice(NEAR_POW2)})
        elif rng.random() < 0.04:
            ops.append({"op": "bar", "key": rng.choice(world.ALL_KEYS), "meter": rng.choice(VALID_METERS)})  # one more bar, after the others have a history
            nb += 1
        elif mode == "edit" and r < 0.25:
            ops.append({"op": "setitem", "bar": b, "index": rng.randrange(8), "content": gen_form(rng), "neg": rng.random() < 0.4})
        elif mode == "edit" and r < 0.5:
            ops.append({"op": "place_at", "bar": b, "index": rng.randrange(8), "content": gen_form(rng)})
        elif r < 0.55:
            ops.append({"op": "place", "bar": b, "content": gen_form(rng), "v": gen_sym(rng), "as_float": rng.random() < 0.2})
        elif r < 0.65:
            ops.append({"op": "rest", "bar": b, "v": gen_sym(rng)})
        elif r < 0.75:
            ops.append({"op": "add", "bar": b, "content": gen_form(rng)})
        elif r < 0.87:
            ops.append({"op": "remove_last", "bar": b})
        elif r < 0.9:
            ops.append({"op": "empty", "bar": b})
        elif r < 0.95:
            ops.append({"op": "set_meter", "bar": b, "meter": rng.choice(VALID_METERS + [[0, 0]] + INVALID_METERS[:7])})
        else:
            ops.append({"op": "query", "bar": b})
    return {"prop": "C13", "cfg": cfg, "ops": ops[:60]}


# ===========================================================================
# C12  NoteContainer as a pitch-ordered, duplicate-free set
# ===========================================================================

DEG = [0, 2, 4, 5, 7, 9, 11]


def shorthand_size(sh):
    """interval shorthand -> (degree 1..7, semitones)"""
    acc = 0
    i = 0
    while sh[i] in "#b":
        acc += 1 if sh[i] == "#" else -1
        i += 1
    d = int(sh[i:])
    return d, DEG[d - 1] + acc


FIFTHS_SHARP = ["F", "C", "G", "D", "A", "E", "B"]
KEY_SIG = {}
for _i, (_maj, _min) in enumerate(zip(world.MAJOR_KEYS, world.MINOR_KEYS)):
    KEY_SIG[_maj] = _i - 7
    KEY_SIG[_min] = _i - 7


def key_notes(key):
    """the seven notes of a natural key, from the circle of fifths (own model)"""
    n = KEY_SIG[key]
    altered = set(FIFTHS_SHARP[:n]) if n > 0 else set(list(reversed(FIFTHS_SHARP))[: -n])
    sym = "#" if n > 0 else "b"
    start = LET.index(key[0].upper())
    out = []
    for i in range(7):
        L = LET[(start + i) % 7]
        out.append(L + (sym if L in altered else ""))
    return out


def diatonic_chord(numeral, key):
    """plain roman numerals I..VII (any case) with optional 7: stacked thirds in the key; None if not that simple"""
    import re

    m = re.match(r"^(VII|VI|IV|V|III|II|I)(7?)$", numeral.upper())
    if not m or key not in KEY_SIG:
        return None
    deg = ["I", "II", "III", "IV", "V", "VI", "VII"].index(m.group(1))
    ns = key_notes(key)
    k = 4 if m.group(2) else 3
    return [ns[(deg + 2 * j) % 7] for j in range(k)]


OWN_CHORDS = {
    "": ["3", "5"], "M": ["3", "5"], "m": ["b3", "5"], "dim": ["b3", "b5"], "aug": ["3", "#5"], "+": ["3", "#5"],
    "7": ["3", "5", "b7"], "dom7": ["3", "5", "b7"], "m7": ["b3", "5", "b7"], "M7": ["3", "5", "7"], "mM7": ["b3", "5", "7"], "m/M7": ["b3", "5", "7"],
    "dim7": ["b3", "b5", "bb7"], "m7b5": ["b3", "b5", "b7"], "sus4": ["4", "5"], "sus2": ["2", "5"], "sus": ["4", "5"],
    "6": ["3", "5", "6"], "M6": ["3", "5", "6"], "m6": ["b3", "5", "6"], "5": ["5"], "7b5": ["3", "b5", "b7"],
}


def own_chord(sym):
    """the note names of the commonest chord symbols, spelled by letter step and semitone size from the
    root (own interval model, see expect_transpose); None for anything else"""
    import re

    m = re.match(r"^([A-G](?:#{0,2}|b{0,2}))(.*)$", sym)
    if not m or m.group(2) not in OWN_CHORDS:
        return None
    root = m.group(1)
    out = [root]
    for sh in OWN_CHORDS[m.group(2)]:
        letter, acc, _o, _p = expect_transpose(root, 4, sh, True)
        out.append(letter + ("#" * acc if acc > 0 else "b" * (-acc)))
    return out


class MNC(object):
    def __init__(self, obj):
        self.obj = obj
        self.notes = {}  # pitch -> (name, octave), first spelling kept

    def top(self):
        return max(self.notes) if self.notes else None

    def state(self):
        return sorted((p, n[0]) for p, n in self.notes.items())


class C12(Base):
    def __init__(self, prop, program):
        Base.__init__(self, prop, program)
        self.ncs = []

    def pick(self, i):
        return self.ncs[i % len(self.ncs)] if self.ncs else None

    def observed(self, m):
        out = []
        for n in m.obj.notes:
            try:
                out.append((n.name, n.octave, int(n)))
            except Exception:
                out.append(("<%s>" % type(n).__name__, None, -10 ** 6))
        return out

    def resync(self, m):
        self.probes["model_resync"] += 1
        m.notes = {}
        for n in m.obj.notes:
            m.notes.setdefault(int(n), (n.name, n.octave))

    def check(self, m, what, feats, strict=True):
        """set invariants always; exact content when strict"""
        obs = self.observed(m)
        self.clauses["C12.sorted_unique"] += 1
        ps = [o[2] for o in obs]
        if any(b <= a for a, b in zip(ps, ps[1:])):
            self.fail("C12.sorted_unique", "after %s the container is %s: not strictly ascending in pitch" % (what, [(o[0], o[1]) for o in obs]), **feats)
            self.resync(m)
            return
        self.clauses["C12.content"] += 1
        if strict:
            want = sorted((p, n[0], n[1]) for p, n in m.notes.items())
            got = sorted((o[2], o[0], o[1]) for o in obs)
            if [w[0] for w in want] != [g[0] for g in got]:
                self.fail("C12.content", "after %s the container holds %s, the set model predicts %s" % (what, [(g[1], g[2]) for g in got], [(w[1], w[2]) for w in want]), **feats)
                self.resync(m)
            elif want != got:
                # same pitches under another spelling (which spelling of a duplicate is kept is not fixed by the statement)
                self.probes["spelling_differs_from_model"] += 1
                self.resync(m)
        else:
            self.resync(m)

    # -- model of one addition --------------------------------------------------
    def model_add(self, m, item):
        """item: ["obj", name, octave] | ["bare", name] | ["oct", name, octave] | ["dash", "C-5"].
        Returns True when the voicing was unambiguous (exact prediction)."""
        k = item[0]
        exact = True
        if k in ("obj", "oct"):
            name, octave = item[1], item[2]
        elif k == "dash":
            name, o = item[1].split("-")
            octave = int(o)
        else:
            name = item[1]
            if not m.notes:
                octave = 4
            else:
                t = m.top()
                tname, toct = m.notes[t]
                octave = toct
                if score.pitch_of(name, toct) < t:
                    octave = toct + 1
                if not (in_octave(name) and in_octave(tname)):
                    exact = False  # octave-wrapping spelling: statement and code may diverge, only set invariants are judged
                    self.probes["voicing_ambiguous_spelling"] += 1
                else:
                    self.clauses["C12.voicing"] += 1
        p = score.pitch_of(name, octave)
        if p not in m.notes:
            m.notes[p] = (name, octave)
        else:
            self.probes["duplicate_pitch_ignored"] += 1
        return exact

    def lib_item(self, item):
        from mingus.containers.note import Note

        k = item[0]
        if k == "obj":
            return Note(item[1], item[2])
        if k in ("bare", "dash"):
            return item[1]
        if k == "oct":
            return [item[1], item[2]] if len(item) == 3 else [item[1], item[2], {"velocity": 20}]
        return item[1]

    # -- ops ------------------------------------------------------------------------
    def do_nc(self, op):
        from mingus.containers.note_container import NoteContainer

        items = op.get("items", [])
        m = MNC(None)
        exact = True
        try:
            if op.get("form") == "single" and items:
                arg = self.lib_item(items[0]) if items[0][0] != "oct" else [self.lib_item(items[0])]
                items = items[:1]
            else:
                arg = [self.lib_item(i) for i in items]
            m.obj = NoteContainer(arg)
            outcome = "accepted"
        except Exception as e:
            self.fail("C12.content", "NoteContainer(%r) raised %s: %s" % (items, type(e).__name__, e), op="nc")
            self.note_outcome("nc", "raised", [x.state() for x in self.ncs])
            return
        for it in items:
            exact = self.model_add(m, it) and exact
        self.ncs.append(m)
        self.trace.ev("nc", items, self.observed(m))
        self.note_outcome("nc", outcome, [x.state() for x in self.ncs])
        self.check(m, "NoteContainer(%r)" % (items,), {"op": "nc"}, exact)

    def do_add(self, op):
        m = self.pick(op["nc"])
        if m is None:
            return
        items = op["items"]
        via = op.get("via", "add_notes")
        exact = True
        exc = None
        try:
            if via == "add_note" and items:
                it = items[0]
                items = [it]
                if it[0] == "oct":
                    m.obj.add_note(it[1], it[2])
                else:
                    m.obj.add_note(self.lib_item(it))
            elif via == "plus":
                arg = [self.lib_item(i) for i in items]
                r = m.obj + (arg if len(arg) != 1 or items[0][0] == "oct" else arg[0])
            else:
                arg = [self.lib_item(i) for i in items]
                m.obj.add_notes(arg if len(arg) != 1 or items[0][0] == "oct" else arg[0])
        except Exception as e:
            exc = e
        self.trace.ev("add", op["nc"], via, items, type(exc).__name__ if exc else None)
        if exc is not None:
            self.fail("C12.content", "%s(%r) raised %s: %s" % (via, items, type(exc).__name__, exc), op="add", via=via)
            self.resync(m)
            self.note_outcome("add", "raised", [x.state() for x in self.ncs])
            return
        for it in items:
            exact = self.model_add(m, it) and exact
        self.note_outcome("add", "accepted", [x.state() for x in self.ncs])
        self.check(m, "%s(%r)" % (via, items), {"op": "add", "via": via}, exact)

    def do_add_container(self, op):
        m = self.pick(op["nc"])
        o = self.pick(op["other"])
        if m is None or o is None or m is o:
            return
        try:
            if op.get("via") == "plus":
                m.obj + o.obj
            else:
                m.obj.add_notes(o.obj)
            exc = None
        except Exception as e:
            exc = e
        self.trace.ev("add_container", op["nc"], op["other"], type(exc).__name__ if exc else None)
        if exc is not None:
            self.fail("C12.content", "adding another container raised %s" % type(exc).__name__, op="add_container")
            self.resync(m)
        else:
            for p in sorted(o.notes):
                if p not in m.notes:
                    m.notes[p] = o.notes[p]
        self.note_outcome("add_container", "raised" if exc else "accepted", [x.state() for x in self.ncs])
        self.check(m, "add container", {"op": "add_container"})
        self.check(o, "being added to another container", {"op": "add_container"})

    def do_bad_add(self, op):
        """refused forms: the container must stay a valid set (partial effects of a raising bulk add are tolerated)"""
        m = self.pick(op["nc"])
        if m is None:
            return
        bad = op["bad"]
        try:
            if op.get("via") == "add_note":
                m.obj.add_note(bad if not isinstance(bad, list) else bad[0])
            else:
                m.obj.add_notes(bad)
            outcome = "accepted"
        except Exception as e:
            outcome = "raised"
        self.trace.ev("bad_add", op["nc"], repr(bad), outcome)
        self.note_outcome("bad_add", outcome, [x.state() for x in self.ncs])
        self.check(m, "malformed add %r" % (bad,), {"op": "bad_add"}, strict=False)

    def do_remove(self, op):
        from mingus.containers.note import Note

        m = self.pick(op["nc"])
        if m is None:
            return
        items = op["items"]
        via = op.get("via", "remove_notes")
        exc = None
        try:
            if via == "remove_note":
                it = items[0]
                items = [it]
                if it[0] == "oct":
                    m.obj.remove_note(it[1], it[2])
                elif it[0] == "obj":
                    m.obj.remove_note(Note(it[1], it[2]))
                else:
                    m.obj.remove_note(it[1])
            else:
                arg = [(Note(i[1], i[2]) if i[0] == "obj" else i[1]) for i in items if i[0] != "oct"]
                items = [i for i in items if i[0] != "oct"]
                if via == "minus":
                    m.obj - (arg if len(arg) != 1 else arg[0])
                else:
                    m.obj.remove_notes(arg if len(arg) != 1 else arg[0])
        except Exception as e:
            exc = e
        self.trace.ev("remove", op["nc"], via, items, type(exc).__name__ if exc else None)
        if exc is not None:
            self.fail("C12.content", "%s(%r) raised %s: %s" % (via, items, type(exc).__name__, exc), op="remove", via=via)
            self.resync(m)
            self.note_outcome("remove", "raised", [x.state() for x in self.ncs])
            return
        for it in items:
            if it[0] == "bare":
                self.clauses["C12.remove_name"] += 1
                if sum(1 for n in m.notes.values() if n[0] == it[1]) > 1:
                    self.probes["remove_name_in_several_octaves"] += 1
                m.notes = {p: n for p, n in m.notes.items() if n[0] != it[1]}
            elif it[0] == "oct":
                self.clauses["C12.remove_octave"] += 1
                if any(n[0] == it[1] and n[1] != it[2] for n in m.notes.values()):
                    self.probes["remove_octave_spares_other_octave"] += 1
                m.notes = {p: n for p, n in m.notes.items() if not (n[0] == it[1] and n[1] == it[2])}
            else:
                m.notes.pop(score.pitch_of(it[1], it[2]), None)
        self.note_outcome("remove", "accepted", [x.state() for x in self.ncs])
        feats = {"op": "remove", "via": via, "by": items[0][0] if items else "none"}
        obs_before_fail = len(self.failures)
        self.check(m, "%s(%r)" % (via, items), feats)
        if len(self.failures) > obs_before_fail and self.failures[-1]["clause"] == "C12.content" and items:
            self.failures[-1]["clause"] = "C12.remove_name" if items[0][0] == "bare" else ("C12.remove_octave" if items[0][0] == "oct" else "C12.content")

    def do_empty(self, op):
        m = self.pick(op["nc"])
        if m is None:
            return
        m.obj.empty()
        m.notes = {}
        self.trace.ev("empty", op["nc"])
        self.note_outcome("empty", "accepted", [x.state() for x in self.ncs])
        self.check(m, "empty", {"op": "empty"})

    def do_shorthand(self, op):
        from mingus.containers.note import Note
        from mingus.containers.note_container import NoteContainer
        import mingus.core.chords as chords
        import mingus.core.progressions as progressions

        m = self.pick(op["nc"])
        if m is None:
            m = MNC(NoteContainer())
            self.ncs.append(m)
        kind = op["kind"]
        self.clauses["C12.constructors"] += 1
        feats = {"op": "shorthand", "kind": kind}
        names = None
        try:
            if kind == "chord":
                try:
                    names = chords.from_shorthand(op["sh"])
                except Exception:
                    names = None
                own = own_chord(op["sh"])
                if own is not None:
                    # the commonest symbols are judged against an own spelling of the chord, not the library's answer
                    self.probes["chord_checked_against_own_interval_model"] += 1
                    if names is not None and list(names) != own:
                        self.fail("C12.constructors", "chord symbol %r: the notes handed to the container are %s, the chord is %s" % (op["sh"], names, own), kind="chord", theory=True)
                    names = own
                r = m.obj.from_chord(op["sh"]) if op.get("alias") else m.obj.from_chord_shorthand(op["sh"])
            elif kind == "interval":
                r = (m.obj.from_interval if op.get("alias") else m.obj.from_interval_shorthand)(op["start"], op["sh"], op.get("up", True))
            else:
                try:
                    pc_ = progressions.to_chords(op["sh"], op.get("key", "C"))
                    names = pc_[0] if pc_ else None
                except Exception:
                    names = None
                own = diatonic_chord(op["sh"], op.get("key", "C"))
                if own is not None:
                    # for plain numerals the notes of the chord are judged against an own model of the key, not the library's
                    self.probes["progression_checked_against_own_key_model"] += 1
                    if names is not None and list(names) != own:
                        self.fail("C12.constructors", "numeral %r in key %r: the chord handed to the container is %s, stacked thirds in that key are %s" % (op["sh"], op.get("key", "C"), names, own), kind="progression", theory=True)
                    names = own
                r = (m.obj.from_progression if op.get("alias") else m.obj.from_progression_shorthand)(op["sh"], op.get("key", "C"))
            exc = None
        except Exception as e:
            exc = e
            r = None
        self.trace.ev("shorthand", kind, op.get("sh"), type(exc).__name__ if exc else None, self.observed(m))
        outcome = "raised" if exc else ("refused" if r is False else "accepted")
        self.note_outcome("shorthand:" + kind, outcome, [x.state() for x in self.ncs])
        if exc is not None or r is False:
            if kind != "interval" and names:
                self.fail("C12.constructors", "%s shorthand %r: %s although the theory module resolves it to %s" % (kind, op["sh"], "raised %s" % type(exc).__name__ if exc else "returned False", names), **feats)
            # unknown shorthand / numeral: documented refusal; whatever happened, the container must stay a valid set
            self.check(m, "refused %s shorthand" % kind, feats, strict=False)
            return
        if kind == "interval":
            start = op["start"]
            d, size = shorthand_size(op["sh"])
            sp = score.pitch_of(start, 4)
            tp = sp + size if op.get("up", True) else sp - size
            got = sorted(o[2] for o in self.observed(m))
            if got != sorted(set([sp, tp])) or (self.observed(m) and not any(o[0] == start and o[1] == 4 for o in self.observed(m))):
                self.fail("C12.constructors", "from_interval_shorthand(%r, %r, up=%s) holds %s, expected pitches %s with the start note in octave 4" % (start, op["sh"], op.get("up", True), self.observed(m), sorted(set([sp, tp]))), **feats)
            self.resync(m)
            self.check(m, "interval shorthand", feats)
            return
        # chord / progression: root in octave 4 first, then the chord's notes in order, ascending
        model = MNC(None)
        exact = True
        for nm in names:
            exact = self.model_add(model, ["bare", nm]) and exact
        m.notes = model.notes
        obs = self.observed(m)
        if obs and not (obs[0][0] == names[0] and obs[0][1] == 4) and min(model.notes) == score.pitch_of(names[0], 4):
            self.fail("C12.constructors", "%s shorthand %r does not start on the root %s in octave 4: %s" % (kind, op["sh"], names[0], obs), **feats)
        self.check(m, "%s shorthand %r" % (kind, op["sh"]), feats, exact)

    def do_query(self, op):
        from mingus.containers.note import Note

        m = self.pick(op["nc"])
        if m is None:
            return
        o = self.pick(op.get("other", 0))
        obs = self.observed(m)
        if sorted((x[2], x[0], x[1]) for x in obs) != sorted((p, n[0], n[1]) for p, n in m.notes.items()):
            return  # content already reported; protocol is judged on agreeing states only
        self.clauses["C12.protocol"] += 1
        feats = {"op": "query"}
        try:
            if len(m.obj) != len(m.notes):
                self.fail("C12.protocol", "len() is %d for %d notes" % (len(m.obj), len(m.notes)), which="len", **feats)
            probe = op.get("probe", ["C", 4])
            want_in = score.pitch_of(probe[0], probe[1]) in m.notes
            if (Note(probe[0], probe[1]) in m.obj) != want_in:
                self.fail("C12.protocol", "%r in container is %s for content %s" % (probe, not want_in, obs), which="in", **feats)
            order_ = sorted(m.notes)
            for idx in ([0, -1, len(order_) // 2] if order_ else []):
                got_n = m.obj[idx]
                if int(got_n) != order_[idx]:
                    self.fail("C12.protocol", "container[%d] is %r for content %s" % (idx, got_n, obs), which="getitem", **feats)
                    break
            names = []
            for p in sorted(m.notes):
                if m.notes[p][0] not in names:
                    names.append(m.notes[p][0])
            if m.obj.get_note_names() != names:
                self.fail("C12.protocol", "get_note_names() is %s for content %s" % (m.obj.get_note_names(), obs), which="names", **feats)
            if o is not None and o is not m:
                oobs = self.observed(o)
                if sorted((x[2], x[0], x[1]) for x in oobs) == sorted((p, n[0], n[1]) for p, n in o.notes.items()):
                    want_eq = set(m.notes) == set(o.notes)
                    if want_eq:
                        self.probes["equality_of_equal_containers"] += 1
                    if bool(m.obj == o.obj) != want_eq:
                        self.fail("C12.protocol", "== is %s for %s and %s" % (not want_eq, obs, oobs), which="eq", **feats)
            # consonance: true exactly when every lower->upper pair satisfies the pairwise rule
            self.clauses["C12.consonance"] += 1
            order = [m.notes[p][0] for p in sorted(m.notes)]
            pairs = [((pc(b) - pc(a)) % 12) for i, a in enumerate(order) for b in order[i + 1 :]]
            for fl in (True, False):
                perf = all(d in (0, 7) or (fl and d == 5) for d in pairs)
                imp = all(d in (3, 4, 8, 9) for d in pairs)
                cons = all(d in (0, 7, 3, 4, 8, 9) or (fl and d == 5) for d in pairs)
                got = (m.obj.is_perfect_consonant(fl), m.obj.is_imperfect_consonant(), m.obj.is_consonant(fl), m.obj.is_dissonant(fl))
                want = (perf, imp, cons, not all(d in (0, 7, 3, 4, 8, 9) or ((not fl) and d == 5) for d in pairs))
                if got != want:
                    self.fail("C12.consonance", "(perfect, imperfect, consonant, dissonant)(flag=%s) = %s for names %s (pairwise semitones %s), expected %s" % (fl, got, order, pairs, want), **feats)
                    break
            if len(order) >= 3:
                self.probes["consonance_on_three_or_more"] += 1
        except Exception as e:
            self.fail("C12.protocol", "query raised %s: %s" % (type(e).__name__, e), which="raised", **feats)
        self.trace.ev("query", op["nc"], len(m.notes))
        self.note_outcome("query", "accepted", [x.state() for x in self.ncs])


C12_NAMES = ["C", "D", "E", "F", "G", "A", "B", "C#", "Eb", "F#", "Ab", "Bb", "B#", "Cb", "E#", "Fb", "C##", "Dbb"]
C12_PLAIN = ["C", "D", "E", "F", "G", "A", "B", "C#", "Eb", "F#", "Ab", "Bb"]
CHORD_SH = ["", "+", "11", "13", "5", "6", "6/7", "6/9", "67", "69", "7", "7#11", "7#5", "7#9", "7+", "7b12", "7b5", "7b9", "9", "M", "M13", "M6", "M7", "M7+", "M7+5", "M9", "aug", "dim", "dim7", "dom7", "hendrix", "m", "m/M7", "m11", "m13", "m6", "m7", "m7+", "m7b5", "m9", "mM7", "sus", "sus2", "sus4", "sus47", "sus4b9", "susb9", "xyz", "add9", "/G", "m7/E"]
C12_ROOTS = ["C", "D", "E", "F", "G", "A", "B", "C#", "Eb", "F#", "Ab", "Bb", "Db", "G#"]
INT_SH = [("#" * a if a > 0 else "b" * (-a)) + str(d) for d in range(1, 8) for a in range(-2, 3) if 0 <= [0, 2, 4, 5, 7, 9, 11][d - 1] + a <= 11]
NUMS = ["I", "ii", "iii", "IV", "V", "vi", "vii", "II", "III", "VI", "VII", "I7", "ii7", "iii7", "IV7", "V7", "vi7", "vii7", "IM7", "iim7", "bII", "#IV", "bVII7", "VIIdim7", "VIII", "x", "Idom7", "IVm", "Vsus4", "vidim", "IIIaug"]


def gen_item(rng, plain=False):
    names = C12_PLAIN if plain else C12_NAMES
    r = rng.random()
    if r < 0.4:
        return ["bare", rng.choice(names)]
    if r < 0.65:
        return ["obj", rng.choice(names), rng.choice([0, 0, 1, 2, 3, 4, 4, 5, 6, 8])]
    if r < 0.85:
        return ["oct", rng.choice(names), rng.choice([0, 0, 1, 2, 3, 4, 4, 5, 6, 8])] + ([1] if rng.random() < 0.2 else [])
    return ["dash", "%s-%d" % (rng.choice(names), rng.choice([0, 1, 2, 3, 4, 5, 6, 8]))]


def gen_c12(rng, tier):
    cfg = {"plain": rng.random() < 0.5, "mix": rng.choice(["adds", "removes", "shorthand", "all", "all"])}
    plain = cfg["plain"]
    ops = []
    nn = rng.choice([1, 2, 2, 3])
    for _ in range(nn):
        ops.append({"op": "nc", "items": [gen_item(rng, plain) for _ in range(rng.randrange(0, 4))], "form": rng.choice(["list", "list", "single"])})
    for _ in range(rng.randrange(3, 30)):
        i = rng.randrange(nn)
        r = rng.random()
        mix = cfg["mix"]
        if (mix == "shorthand" and r < 0.6) or (mix == "all" and r < 0.12):
            k = rng.choice(["chord", "chord", "interval", "progression"])
            if k == "chord":
                ops.append({"op": "shorthand", "nc": i, "kind": k, "sh": rng.choice(C12_ROOTS) + rng.choice(CHORD_SH), "alias": rng.random() < 0.3})
            elif k == "interval":
                ops.append({"op": "shorthand", "nc": i, "kind": k, "start": rng.choice(C12_PLAIN), "sh": rng.choice(INT_SH), "up": rng.random() < 0.6, "alias": rng.random() < 0.3})
            else:
                ops.append({"op": "shorthand", "nc": i, "kind": k, "sh": rng.choice(NUMS), "key": rng.choice(world.ALL_KEYS), "alias": rng.random() < 0.3})
        elif (mix == "removes" and r < 0.5) or (mix == "all" and r < 0.35):
            via = rng.choice(["remove_note", "remove_note", "remove_notes", "minus"])
            items = [gen_item(rng, plain) for _ in range(1 if via == "remove_note" else rng.randrange(1, 3))]
            items = [it for it in items if it[0] != "dash"] or [["bare", "C"]]
            ops.append({"op": "remove", "nc": i, "items": items, "via": via})
        elif r < 0.75:
            via = rng.choice(["add_note", "add_notes", "add_notes", "plus"])
            ops.append({"op": "add", "nc": i, "items": [gen_item(rng, plain) for _ in range(1 if via == "add_note" else rng.randrange(1, 4))], "via": via})
        elif r < 0.8:
            ops.append({"op": "add_container", "nc": i, "other": rng.randrange(nn), "via": rng.choice(["add_notes", "plus"])})
        elif r < 0.84:
            ops.append({"op": "bad_add", "nc": i, "bad": rng.choice(["H", "C-x", ["C", "E", "H"], "", [["C"]], 5, [["C", 4], ["H", 5]], [["G", 3], ["C", 5], ["X", 2]], ["E", "Hb", "G"]]), "via": rng.choice(["add_note", "add_notes"])})
        elif r < 0.87:
            ops.append({"op": "empty", "nc": i})
        else:
            ops.append({"op": "query", "nc": i, "other": rng.randrange(nn), "probe": [rng.choice(C12_NAMES), rng.randrange(2, 7)]})
    ops.append({"op": "query", "nc": 0, "other": 1, "probe": ["C", 4]})
    return {"prop": "C12", "cfg": cfg, "ops": ops[:60]}


# ===========================================================================
# C14  Tracks and compositions accumulate music faithfully
# ===========================================================================

RANGES = {"plain": (0, 96), "piano": (5, 107), "guitar": (40, 88), "midi": (0, 107)}


def form_pitches(form):
    """pitches the instrument gate looks at (bare names are taken in octave 4)"""
    k = form[0]
    if k == "name":
        return [score.pitch_of(form[1], 4)]
    if k == "dash":
        n, o = form[1].split("-")
        return [score.pitch_of(n, int(o))]
    if k == "note":
        return [score.pitch_of(form[1], form[2])]
    if k == "names":
        return [score.pitch_of(n, 4) for n in form[1]]
    if k == "notes":
        return [score.pitch_of(n, o) for n, o in form[1]]
    if k == "dashes":
        return [score.pitch_of(x.split("-")[0], int(x.split("-")[1])) for x in form[1]]
    if k == "nc":
        # voiced upward from octave 4 by the container
        out = []
        for n in form[1]:
            if not out:
                out.append(score.pitch_of(n, 4))
            else:
                o = max(out) // 12
                p = score.pitch_of(n, o)
                # same rule as the container: at or above the top note
                top = max(out)
                p = score.pitch_of(n, 4)
                while p < top:
                    p += 12
                out.append(p)
        return out
    return []


class MTr(object):
    def __init__(self, obj, instr):
        self.obj = obj
        self.instr = instr
        self.bars = []  # dict(key, meter, entries=[(len, value, names|None)], by_lib)

    def seq(self):
        return [e for b in self.bars for e in b["entries"]]

    def state(self):
        return [[b["key"], list(b["meter"]), [[e[0], None if e[2] is None else sorted(e[2])] for e in b["entries"]]] for b in self.bars]


def bar_len(b):
    return Fraction(b["meter"][0], b["meter"][1]) if b["meter"][1] else Fraction(0)


def bar_total(b):
    return sum((e[0] for e in b["entries"]), Fraction(0))


class C14(Base):
    def __init__(self, prop, program):
        Base.__init__(self, prop, program)
        self.tracks = []
        self.comps = []  # dict(obj, tracks=[MTr], selected=[idx])

    def pick(self, i):
        return self.tracks[i % len(self.tracks)] if self.tracks else None

    def state(self):
        return [t.state() for t in self.tracks] + [[len(c["tracks"]), c["selected"]] for c in self.comps]

    # -- observation ---------------------------------------------------------
    def lib_seq(self, t):
        out = []
        for (beat, dur, nc) in t.obj.get_notes():
            out.append((dur, None if nc is None else [x[0] for x in safe_notes(nc)]))
        return out

    def lib_bars(self, t):
        return [[(e[0], e[1], safe_notes(e[2])) for e in b.bar] + [("meta", b.key.key if hasattr(b.key, "key") else b.key, tuple(b.meter))] for b in t.obj.bars]

    def check_track(self, t, what, feats):
        """iterate / integrity / conservation against the model"""
        self.clauses["C14.iterate"] += 1
        try:
            got = self.lib_seq(t)
        except Exception as e:
            self.fail("C14.iterate", "after %s iterating the track raised %s: %s" % (what, type(e).__name__, e), **feats)
            return False
        want = t.seq()
        ok = len(got) == len(want)
        if ok:
            for g, w in zip(got, want):
                if abs(Fraction(1) / Fraction(g[0]) - w[0]) > Fraction(1, 10 ** 9) or (g[1] is None) != (w[2] is None) or (g[1] is not None and not same_content(g[1], w[2])):
                    ok = False
                    break
        if not ok:
            self.fail("C14.iterate", "after %s the track yields %s, accepted items are %s" % (what, [(g[0], g[1]) for g in got][-6:], [(w[1], None if w[2] is None else sorted(w[2])) for w in want][-6:]), **feats)
            self.resync(t)
            return False
        if len(t.obj.bars) != len(t.bars) or any(len(lb.bar) != len(mb["entries"]) for lb, mb in zip(t.obj.bars, t.bars)):
            self.fail("C14.iterate", "after %s the items are distributed over bars %s, the model has %s" % (what, [len(b.bar) for b in t.obj.bars], [len(b["entries"]) for b in t.bars]), **feats)
            self.resync(t)
            return False
        self.clauses["C14.conservation"] += 1
        tot_lib = sum((Fraction(1) / Fraction(g[0]) for g in got), Fraction(0))
        tot_model = sum((w[0] for w in want), Fraction(0))
        if abs(tot_lib - tot_model) > Fraction(1, 10 ** 8):
            self.fail("C14.conservation", "after %s entry lengths sum to %s, accepted lengths to %s" % (what, float(tot_lib), tot_model), **feats)
        self.clauses["C14.integrity"] += 1
        for i, b in enumerate(t.bars[:-1]):
            rem = bar_len(b) - bar_total(b)
            if b["meter"][1] and rem > Fraction(2, 1000) and not b.get("caller_added"):
                self.fail("C14.integrity", "after %s bar %d of %d is not full (%s of %s used) although it is not the last" % (what, i, len(t.bars), bar_total(b), bar_len(b)), **feats)
                break
        return True

    def resync(self, t):
        self.probes["model_resync"] += 1
        bars = []
        for b in t.obj.bars:
            es = []
            for e in b.bar:
                try:
                    fr = Fraction(1) / Fraction(e[1]).limit_denominator(1000000)
                except Exception:
                    fr = Fraction(0)
                es.append((fr, e[1], None if e[2] is None else set(n.name for n in e[2])))
            bars.append({"key": b.key.key if hasattr(b.key, "key") else b.key, "meter": tuple(b.meter), "entries": es, "by_lib": False, "caller_added": True})
        t.bars = bars

    # -- ops -----------------------------------------------------------------------
    def do_track(self, op):
        from mingus.containers.track import Track
        import mingus.containers.instrument as I

        k = op.get("instr", "none")
        ins = {"none": lambda: None, "plain": I.Instrument, "piano": I.Piano, "guitar": I.Guitar, "midi": lambda: I.MidiInstrument("Violin")}[k]()
        self.tracks.append(MTr(Track(ins), k))
        self.trace.ev("track", k)
        self.note_outcome("track", "accepted", self.state())

    def _last_full(self, t):
        """-> True / False / None (don't-care band)"""
        if not t.bars:
            return False
        b = t.bars[-1]
        if not b["meter"][1] or not b["entries"]:
            return False
        rem = bar_len(b) - bar_total(b)
        if rem <= 0:
            return True
        if rem > Fraction(2, 1000):
            return False
        return None

    def _add(self, t, form, sym, call, what, feats):
        """shared by add_notes / '+': judge one item."""
        ln = score.sym_length(sym)
        v = score.sym_value(sym)
        before_seq = self.lib_seq(t)
        before_bars = self.lib_bars(t)
        nb_before = len(t.obj.bars)
        exc, ret = None, None
        try:
            ret = call()
        except Exception as e:
            exc = e
        self.trace.ev(what, form, sym, repr(ret) if not hasattr(ret, "bars") else "track", type(exc).__name__ if exc else None)
        rng_ = RANGES.get(t.instr)
        pitches = form_pitches(form)
        out_of_range = rng_ is not None and any(p < rng_[0] or p > rng_[1] for p in pitches)
        is_rest = form[0] == "none"
        feats = dict(feats, instr=t.instr, rest=is_rest)
        if exc is not None:
            outcome = "raised"
            name = type(exc).__name__
            if is_rest and t.instr != "none":
                self.clauses["C14.rest_instrument"] += 1
                self.fail("C14.rest_instrument", "%s of a rest on a track with a %s instrument raised %s: %s" % (what, t.instr, name, exc), raised=name, **feats)
            elif out_of_range:
                self.clauses["C14.range"] += 1
                self.probes["note_out_of_range"] += 1
                if name != "InstrumentRangeError":
                    self.fail("C14.range", "%s of %r outside the range of %s raised %s instead of the range error" % (what, form, t.instr, name), raised=name, **feats)
            elif rng_ is not None:
                self.clauses["C14.range"] += 1
                self.fail("C14.range", "%s of %r inside the range of %s raised %s: %s" % (what, form, t.instr, name, exc), raised=name, **feats)
            else:
                self.fail("C14.iterate", "%s of %r raised %s: %s" % (what, form, name, exc), raised=name, **feats)
            # nothing may have changed
            self.clauses["C14.reject_atomic"] += 1
            if self.lib_seq(t) != before_seq:
                self.fail("C14.reject_atomic", "%s raised %s but the track changed" % (what, name), **feats)
                self.resync(t)
            elif len(t.obj.bars) != nb_before:
                if out_of_range and name == "InstrumentRangeError":
                    # the range gate refuses before anything is touched: not even an empty bar may appear
                    self.fail("C14.range", "%s of %r was refused with the range error but the track went from %d to %d bars" % (what, form, nb_before, len(t.obj.bars)), raised=name, left_bar=True, **feats)
                    self.resync(t)
                else:
                    self._tolerate_fresh_bar(t, what, feats)
            self.note_outcome(what, outcome, self.state())
            return
        if out_of_range:
            self.clauses["C14.range"] += 1
            self.probes["note_out_of_range"] += 1
            self.fail("C14.range", "%s of %r outside the range of %s was not refused (returned %r)" % (what, form, t.instr, ret), **feats)
        elif rng_ is not None and not is_rest:
            self.clauses["C14.range"] += 1
        if is_rest and t.instr != "none":
            self.clauses["C14.rest_instrument"] += 1
            self.probes["rest_with_instrument"] += 1
        accepted = ret is True or (hasattr(ret, "bars"))
        if ret is not True and ret is not False:
            self.fail("C14.iterate", "%s returned %r" % (what, ret), **feats)
        if accepted:
            full = self._last_full(t)
            grew = len(t.obj.bars) - nb_before
            if not t.bars:
                t.bars.append({"key": "C", "meter": (4, 4), "entries": [], "by_lib": True})
                if grew != 1:
                    self.fail("C14.iterate", "%s on an empty track created %d bars" % (what, grew), **feats)
            elif full is True or (full is None and grew == 1):
                self.clauses["C14.inherit"] += 1
                self.probes["library_opened_a_bar"] += 1
                prev = t.bars[-1]
                t.bars.append({"key": prev["key"], "meter": prev["meter"], "entries": [], "by_lib": True})
                lb = t.obj.bars[-1]
                lk = lb.key.key if hasattr(lb.key, "key") else lb.key
                if grew != 1:
                    self.fail("C14.iterate", "%s with a full last bar created %d bars" % (what, grew), **feats)
                elif lk != prev["key"] or tuple(lb.meter) != tuple(prev["meter"]):
                    self.fail("C14.inherit", "the bar opened by the library has key %r meter %r, the previous bar has %r %r" % (lk, tuple(lb.meter), prev["key"], tuple(prev["meter"])), **feats)
            elif grew != 0:
                self.fail("C14.integrity", "%s opened a new bar although the last one is not full (%s of %s used)" % (what, bar_total(t.bars[-1]), bar_len(t.bars[-1])), **feats)
                self.resync(t)
                self.note_outcome(what, "accepted", self.state())
                return
            t.bars[-1]["entries"].append((ln, v, None if is_rest else set(content_names(form))))
            self.note_outcome(what, "accepted", self.state())
            self.check_track(t, what, feats)
        else:
            self.clauses["C14.reject_atomic"] += 1
            self.probes["item_refused"] += 1
            if self.lib_seq(t) != before_seq or self.lib_bars(t)[:nb_before] != before_bars:
                self.fail("C14.reject_atomic", "%s reported False but the track changed: %s -> %s" % (what, before_seq[-4:], self.lib_seq(t)[-4:]), **feats)
                self.resync(t)
            elif len(t.obj.bars) != nb_before:
                self._tolerate_fresh_bar(t, what, feats)
            self.note_outcome(what, "refused", self.state())

    def _tolerate_fresh_bar(self, t, what, feats):
        """a freshly opened *empty* last bar is tolerated iff the previous last bar was full (or the track was empty)"""
        full = self._last_full(t)
        nb = len(t.obj.bars)
        if nb == len(t.bars) + 1 and len(t.obj.bars[-1].bar) == 0 and (full in (True, None) or not t.bars):
            self.probes["rejected_item_left_fresh_empty_bar"] += 1
            prev = t.bars[-1] if t.bars else {"key": "C", "meter": (4, 4)}
            t.bars.append({"key": prev["key"], "meter": prev["meter"], "entries": [], "by_lib": True})
        else:
            self.fail("C14.reject_atomic", "rejected %s left %d bars (model %d)" % (what, nb, len(t.bars)), **feats)
            self.resync(t)

    def do_other_instrument(self, op):
        """somebody else's instrument: another, unattached instrument object of some class gets its own range and is
        asked about notes.  No track of this history is involved, so nothing about them may change."""
        import mingus.containers.instrument as I

        k = op.get("instr", "plain")
        try:
            ins = {"plain": I.Instrument, "piano": I.Piano, "guitar": I.Guitar, "midi": lambda: I.MidiInstrument("Violin")}[k]()
            lo, hi = op["range"]
            ins.set_range((lo, hi))
            ins.note_in_range(op.get("ask", "C-4"))
            out = "ok"
        except Exception as e:
            out = type(e).__name__
        self.probes["another_instrument_given_its_own_range"] += 1
        self.trace.ev("other_instrument", k, op["range"], out)

    def do_add_notes(self, op):
        t = self.pick(op["track"])
        if t is None:
            return
        form = op["content"]
        sym = op.get("v") or [4, 0, 1, 1]
        content = make_content(form)
        if op.get("v") is None:
            call = lambda: t.obj.add_notes(content)
        else:
            call = lambda: t.obj.add_notes(content, score.sym_value(sym))
        self._add(t, form, sym, call, "add_notes", {"op": "add_notes"})

    def do_plus(self, op):
        t = self.pick(op["track"])
        if t is None:
            return
        form = op["content"]
        if form[0] in ("none", "names", "notes", "empty", "dashes"):
            return  # '+' takes a note, a name, a container or a bar
        content = make_content(form)
        self._add(t, form, [4, 0, 1, 1], lambda: t.obj + content, "plus", {"op": "plus"})

    def do_add_bar(self, op):
        from mingus.containers.bar import Bar

        t = self.pick(op["track"])
        if t is None:
            return
        full = self._last_full(t)
        if t.bars and full is not True:
            return  # the caller would break bar integrity himself
        b = Bar(op.get("key", "C"), tuple(op["meter"]))
        if op.get("via") == "plus":
            t.obj + b
        else:
            t.obj.add_bar(b)
        t.bars.append({"key": op.get("key", "C"), "meter": tuple(op["meter"]), "entries": [], "by_lib": False})
        self.trace.ev("add_bar", op["track"], op["meter"])
        self.note_outcome("add_bar", "accepted", self.state())
        self.check_track(t, "add_bar", {"op": "add_bar"})

    def do_from_chords(self, op):
        import mingus.core.chords as chords

        t = self.pick(op["track"])
        if t is None or t.instr != "none":
            return
        dur = op["duration"]
        items = []  # (names or None, value)

        def walk(c, d):
            if isinstance(c, list):
                for x in c:
                    walk(x, d * 2)
            elif c is None:
                items.append((None, d))
            else:
                items.append((set(chords.from_shorthand(c)), d))

        for c in op["chords"]:
            if c is None:
                items.append((None, dur))
            else:
                walk(c, dur)
        n_before = len(self.lib_seq(t))
        # what the capacity situation looks like, for the report
        exc = None
        try:
            t.obj.from_chords(op["chords"], dur)
        except Exception as e:
            exc = e
        self.trace.ev("from_chords", op["chords"], dur, type(exc).__name__ if exc else None)
        self.clauses["C14.from_chords"] += 1
        got = self.lib_seq(t)[n_before:]
        feats = {"op": "from_chords"}
        # features: does a rest need splitting / does an item exceed a whole bar?
        pos = bar_total(t.bars[-1]) if t.bars and self._last_full(t) is False else Fraction(0)
        blen = bar_len(t.bars[-1]) if t.bars else Fraction(1)
        rest_split = item_big = split = False
        for names, d in items:
            ln = Fraction(1, 1) / Fraction(d)
            if ln > blen:
                item_big = True
            if pos + ln > blen:
                split = True
                if names is None:
                    rest_split = True
                if blen - pos + blen < ln:
                    item_big = True
            pos = (pos + ln) % blen if blen else Fraction(0)
        feats.update(rest_needs_split=rest_split, item_exceeds_bar=item_big, needs_split=split)
        if split:
            self.probes["from_chords_item_split"] += 1
        if exc is not None:
            self.fail("C14.from_chords", "from_chords(%r, %r) raised %s: %s" % (op["chords"], dur, type(exc).__name__, exc), raised=type(exc).__name__, **feats)
            self.resync(t)
            self.note_outcome("from_chords", "raised", self.state())
            return
        # greedy match: each requested item = one or more consecutive entries of the same content whose lengths add up
        i = 0
        bad = None
        for names, d in items:
            need = Fraction(1) / Fraction(d)
            have = Fraction(0)
            k = 0
            while have < need - Fraction(1, 10 ** 7) and i < len(got):
                g = got[i]
                if (g[1] is None) != (names is None) or (g[1] is not None and not same_content(g[1], names)):
                    break
                have += Fraction(1) / Fraction(g[0])
                i += 1
                k += 1
            if abs(have - need) > Fraction(1, 10 ** 7):
                bad = "item %s of value %r: found %s of its length %s in the track" % ("rest" if names is None else sorted(names), d, float(have), need)
                break
        if bad is None and i != len(got):
            bad = "%d surplus entries" % (len(got) - i)
        if bad:
            self.fail("C14.from_chords", "from_chords(%r, %r): %s; new entries: %s" % (op["chords"], dur, bad, [(g[0], g[1]) for g in got][:8]), **feats)
        self.resync(t)
        for b in t.bars:
            b["caller_added"] = False
        self.note_outcome("from_chords", "accepted", self.state())
        if not bad:
            self.check_track(t, "from_chords", feats)

    # -- compositions ---------------------------------------------------------------
    def do_comp(self, op):
        from mingus.containers.composition import Composition

        self.comps.append({"obj": Composition(), "tracks": [], "selected": []})
        self.trace.ev("comp")
        self.note_outcome("comp", "accepted", self.state())

    def _comp(self, i):
        return self.comps[i % len(self.comps)] if self.comps else None

    def do_comp_add_track(self, op):
        c = self._comp(op["comp"])
        t = self.pick(op["track"])
        if c is None or t is None or any(t is x for cc in self.comps for x in cc["tracks"]):
            return
        if op.get("via") == "plus":
            c["obj"] + t.obj
        else:
            c["obj"].add_track(t.obj)
        c["tracks"].append(t)
        c["selected"] = [len(c["tracks"]) - 1]
        self.trace.ev("comp_add_track", op["comp"], op["track"])
        self.note_outcome("comp_add_track", "accepted", self.state())
        self.check_comp(c, "add_track")

    def do_select(self, op):
        c = self._comp(op["comp"])
        if c is None or not c["tracks"]:
            return
        sel = sorted(set(i % len(c["tracks"]) for i in op["sel"]))
        c["obj"].selected_tracks = list(sel)
        c["selected"] = sel
        self.trace.ev("select", op["comp"], sel)
        self.note_outcome("select", "accepted", self.state())

    def do_comp_add_note(self, op):
        c = self._comp(op["comp"])
        if c is None:
            return
        form = op["content"]
        if form[0] in ("none", "names", "notes", "empty", "dashes"):
            return
        if any(t.instr != "none" for t in c["tracks"]):
            return
        content = make_content(form)
        befores = [self.lib_seq(t) for t in c["tracks"]]
        exc = None
        try:
            if op.get("via") == "plus":
                c["obj"] + content
            else:
                c["obj"].add_note(content)
        except Exception as e:
            exc = e
        self.trace.ev("comp_add_note", op["comp"], form, c["selected"], type(exc).__name__ if exc else None)
        self.clauses["C14.selection"] += 1
        feats = {"op": "comp_add_note", "selected": len(c["selected"])}
        if len(c["selected"]) > 1:
            self.probes["several_tracks_selected"] += 1
        if len(c["selected"]) < len(c["tracks"]):
            self.probes["some_track_not_selected"] += 1
        if exc is not None:
            self.fail("C14.selection", "add_note(%r) raised %s: %s" % (form, type(exc).__name__, exc), **feats)
            for t in c["tracks"]:
                self.resync(t)
        else:
            for i, t in enumerate(c["tracks"]):
                now = self.lib_seq(t)
                if i in c["selected"]:
                    # the same as track + note: accepted iff it fits (decision read from the track itself)
                    if len(now) == len(befores[i]) + 1:
                        full = self._last_full(t)
                        if not t.bars:
                            t.bars.append({"key": "C", "meter": (4, 4), "entries": [], "by_lib": True})
                        elif full is True or (full is None and len(t.obj.bars) == len(t.bars) + 1):
                            prev = t.bars[-1]
                            t.bars.append({"key": prev["key"], "meter": prev["meter"], "entries": [], "by_lib": True})
                        t.bars[-1]["entries"].append((Fraction(1, 4), 4, set(content_names(form))))
                        self.check_track(t, "composition.add_note", feats)
                    elif now == befores[i]:
                        lf = self._last_full(t)
                        fits = not t.bars or lf is True or (lf is False and bar_total(t.bars[-1]) + Fraction(1, 4) <= bar_len(t.bars[-1]))
                        if lf is None:
                            self.probes["fullness_dont_care_band"] += 1  # either behaviour is accepted (C13's tolerance)
                        elif fits:
                            self.fail("C14.selection", "add_note(%r) did not reach selected track %d" % (form, i), **feats)
                        elif len(t.obj.bars) != len(t.bars):
                            self._tolerate_fresh_bar(t, "composition.add_note", feats)
                    else:
                        self.fail("C14.selection", "add_note(%r) changed selected track %d by %d entries" % (form, i, len(now) - len(befores[i])), **feats)
                        self.resync(t)
                elif now != befores[i]:
                    self.fail("C14.selection", "add_note(%r) changed track %d which is not selected (selected: %s)" % (form, i, c["selected"]), **feats)
                    self.resync(t)
        self.note_outcome("comp_add_note", "raised" if exc else "accepted", self.state())

    def check_comp(self, c, what):
        self.clauses["C14.protocol"] += 1
        o = c["obj"]
        try:
            if len(o) != len(c["tracks"]) or any(o[i] is not t.obj for i, t in enumerate(c["tracks"])):
                self.fail("C14.protocol", "after %s len()/indexing of the composition disagree with its %d tracks" % (what, len(c["tracks"])), which="comp_len_index")
            if list(o.selected_tracks) != c["selected"]:
                self.fail("C14.selection", "after %s selected_tracks is %s, expected %s" % (what, o.selected_tracks, c["selected"]), op=what)
        except Exception as e:
            self.fail("C14.protocol", "after %s len()/indexing raised %s" % (what, type(e).__name__), which="comp_len_index")

    def _twin(self, t):
        """a second track built from the same accepted items"""
        from mingus.containers.bar import Bar
        from mingus.containers.track import Track
        from mingus.containers.note import Note

        tw = Track()
        for lb in t.obj.bars:
            b = Bar(lb.key.key if hasattr(lb.key, "key") else lb.key, tuple(lb.meter))
            for e in lb.bar:
                b.place_notes(None if e[2] is None else [Note(n.name, n.octave) for n in e[2]], e[1])
            tw.add_bar(b)
        return tw

    def do_protocol(self, op):
        from mingus.containers.composition import Composition

        t = self.pick(op["track"])
        if t is None:
            return
        self.clauses["C14.protocol"] += 1
        feats = {"op": "protocol"}
        try:
            if len(t.obj) != len(t.bars) or any(t.obj[i] is not t.obj.bars[i] for i in range(len(t.bars))):
                self.fail("C14.protocol", "len()/indexing of the track disagree with its %d bars" % len(t.bars), which="track_len_index", **feats)
            if t.obj.test_integrity() is not True and all(self_full for self_full in [True]):
                ok = all((bar_len(b) - bar_total(b)) <= Fraction(2, 1000) for b in t.bars[:-1] if b["meter"][1])
                if ok:
                    self.fail("C14.integrity", "test_integrity() is False although every bar but the last is full", **feats)
            tw = self._twin(t)
            if not (t.obj == tw) or (t.obj != tw):
                self.fail("C14.protocol", "a track rebuilt from the same items does not compare equal (== %s, != %s)" % (t.obj == tw, t.obj != tw), which="track_eq", **feats)
            if len(self.lib_seq(t)):
                tw2 = self._twin(t)
                last = [b for b in tw2.bars if b.bar][-1]
                last.bar[-1][1] = last.bar[-1][1] * 2
                if t.obj == tw2:
                    self.fail("C14.protocol", "tracks with different contents compare equal", which="track_neq", **feats)
            from mingus.containers.bar import Bar as _Bar

            tw3 = self._twin(t)
            tw3.add_bar(_Bar())
            if t.obj == tw3 or len(tw3) != len(t.obj) + 1:
                self.fail("C14.protocol", "a track with one more (empty) bar compares equal / has the same length", which="track_neq_empty_bar", **feats)
            c = self._comp(op.get("comp", 0))
            if c is not None:
                self.check_comp(c, "protocol")
                c2 = Composition()
                for x in c["tracks"]:
                    c2.add_track(self._twin(x))
                self.probes["composition_equality_checked"] += 1
                if not (c["obj"] == c2) or (c["obj"] != c2):
                    self.fail("C14.protocol", "a composition rebuilt from the same tracks does not compare equal (== %s, != %s)" % (c["obj"] == c2, c["obj"] != c2), which="comp_eq", **feats)
                c3 = Composition()
                for x in c["tracks"]:
                    c3.add_track(self._twin(x))
                c3.add_track(self._twin(t))
                if c["obj"] == c3 or not (c["obj"] != c3):
                    self.fail("C14.protocol", "compositions with different contents compare equal", which="comp_neq", **feats)
        except Exception as e:
            self.fail("C14.protocol", "protocol query raised %s: %s" % (type(e).__name__, e), which="raised", **feats)
        self.trace.ev("protocol", op["track"])
        self.note_outcome("protocol", "accepted", self.state())


C14_NAMES = ["C", "E", "G", "A", "F#", "Bb", "D"]
C14_CHORDS = ["C", "Am", "G7", "Dm7", "F#dim", "BbM7", "Esus4", "C6"]


def gen_c14_form(rng, out_p):
    r = rng.random()
    nm = lambda: rng.choice(C14_NAMES)
    if rng.random() < out_p * 0.5:
        # an out-of-range note somewhere inside a plain list (first, middle or last)
        good = [[nm(), rng.randrange(4, 6)] for _ in range(rng.randrange(2, 5))]
        bad = rng.choice([["C", 9], ["C#", 8], ["C", 0], ["D", 3], ["F", 7]])
        good.insert(rng.randrange(len(good) + 1), bad)
        seen, out = set(), []
        for n, o in good:
            if score.pitch_of(n, o) not in seen:
                seen.add(score.pitch_of(n, o))
                out.append([n, o])
        return ["notes", out] if rng.random() < 0.5 else ["dashes", ["%s-%d" % (n, o) for n, o in out]]
    if rng.random() < out_p:
        return rng.choice([["note", "C", 9], ["note", "B", 8], ["note", "C", 0], ["note", "D", 3], ["dash", "C-9"], ["note", "F", 7], ["note", "E", 3], ["note", "E", 7], ["note", "C#", 8], ["note", "F", 0]])
    if r < 0.25:
        return ["name", nm()]
    if r < 0.35:
        return ["dash", "%s-%d" % (nm(), rng.randrange(3, 7))]
    if r < 0.5:
        return ["note", nm(), rng.randrange(3, 7)]
    if rng.random() < 0.05:
        # big chords (five and six notes: six is as many as a guitar has strings)
        k = rng.choice([5, 6, 6])
        seen, out = set(), []
        while len(out) < k:
            n, o = nm(), rng.randrange(4, 7)
            if score.pitch_of(n, o) not in seen:
                seen.add(score.pitch_of(n, o))
                out.append([n, o])
        return rng.choice([["notes", out], ["dashes", ["%s-%d" % (n, o) for n, o in out]]])
    if r < 0.58:
        return ["names", sorted(set(nm() for _ in range(rng.randrange(1, 4))))]
    if r < 0.64:
        ds, seen = [], set()
        for _ in range(rng.randrange(1, 5)):
            n, o = nm(), rng.randrange(3, 7)
            if score.pitch_of(n, o) not in seen:
                seen.add(score.pitch_of(n, o))
                ds.append("%s-%d" % (n, o))
        return ["dashes", ds]
    if r < 0.75:
        return ["nc", sorted(set(nm() for _ in range(rng.randrange(1, 4))))]
    return ["none"]


def gen_chords(rng, depth=0):
    out = []
    for _ in range(rng.randrange(1, 5)):
        r = rng.random()
        if r < 0.15:
            out.append(None)  # a rest, at any nesting level
        elif r < 0.35 and depth < 2:
            out.append(gen_chords(rng, depth + 1))
        else:
            out.append(rng.choice(C14_CHORDS))
    return out


def gen_c14(rng, tier):
    cfg = {"out_p": rng.choice([0.0, 0.0, 0.1, 0.3]), "mode": rng.choice(["track", "track", "chords", "comp", "all"])}
    ops = []
    nt = rng.choice([1, 1, 2, 3])
    for i in range(nt):
        ops.append({"op": "track", "instr": rng.choice(["none", "none", "none", "plain", "piano", "guitar", "midi"]) if cfg["mode"] in ("track", "all") else "none"})
    if cfg["mode"] in ("comp", "all"):
        ops.append({"op": "comp"})
        for i in range(nt):
            if rng.random() < 0.8:
                ops.append({"op": "comp_add_track", "comp": 0, "track": i, "via": rng.choice(["add_track", "plus"])})
    vals = [[1, 0, 1, 1], [2, 0, 1, 1], [4, 0, 1, 1], [4, 0, 1, 1], [8, 0, 1, 1], [16, 0, 1, 1], [4, 1, 1, 1], [8, 1, 1, 1], [2, 1, 1, 1], [8, 0, 3, 2], [4, 0, 3, 2], [16, 0, 5, 4], [8, 0, 7, 4], [32, 0, 1, 1], [[1, 2], 0, 1, 1]]
    for _ in range(rng.randrange(4, 40)):
        t = rng.randrange(nt)
        r = rng.random()
        mode = cfg["mode"]
        if mode == "chords" and r < 0.4 or mode == "all" and r < 0.08:
            ops.append({"op": "from_chords", "track": t, "chords": gen_chords(rng), "duration": rng.choice([1, 1, 2, 4, 0.5])})
        elif mode in ("comp", "all") and r < 0.3:
            rr = rng.random()
            if rr < 0.6:
                ops.append({"op": "comp_add_note", "comp": 0, "content": gen_c14_form(rng, 0.0), "via": rng.choice(["add_note", "plus"])})
            else:
                ops.append({"op": "select", "comp": 0, "sel": [rng.randrange(4) for _ in range(rng.randrange(0, 4))]})
        elif rng.random() < 0.04:
            ops.append({"op": "other_instrument", "instr": rng.choice(["plain", "plain", "piano", "guitar", "midi"]), "range": rng.choice([["C-5", "D-7"], ["C-3", "C-4"], ["E-4", "E-4"], ["A-0", "C-2"], ["G-6", "C-8"]]), "ask": rng.choice(["C-4", "C-9", "A-0"])})
        elif r < 0.7:
            ops.append({"op": "add_notes", "track": t, "content": gen_c14_form(rng, cfg["out_p"]), "v": rng.choice(vals) if rng.random() < 0.85 else None})
        elif r < 0.8:
            ops.append({"op": "plus", "track": t, "content": gen_c14_form(rng, cfg["out_p"])})
        elif r < 0.88:
            ops.append({"op": "add_bar", "track": t, "key": rng.choice(world.ALL_KEYS), "meter": rng.choice(VALID_METERS[:10]), "via": rng.choice(["add_bar", "plus"])})
        else:
            ops.append({"op": "protocol", "track": t, "comp": 0})
    ops.append({"op": "protocol", "track": 0, "comp": 0})
    return {"prop": "C14", "cfg": cfg, "ops": ops[:60]}


# ===========================================================================
# C11  Transposition at every container level
# ===========================================================================


def all_shorthands(maxacc=2):
    out = []
    for d in range(1, 8):
        for acc in range(-maxacc, maxacc + 1):
            size = DEG[d - 1] + acc
            if 0 <= size <= 11:
                out.append(("#" * acc if acc > 0 else "b" * (-acc)) + str(d))
    return out


SH_ALL = all_shorthands(2) + ["bbb3", "###4", "bbb6", "###2"]


def expect_transpose(name, octave, sh, up):
    d, size = shorthand_size(sh)
    idx = 7 * octave + LET.index(name[0])
    p = score.pitch_of(name, octave)
    idx2 = idx + (d - 1) if up else idx - (d - 1)
    p2 = p + size if up else p - size
    o2, l2 = divmod(idx2, 7)
    acc = p2 - (12 * o2 + NAT[LET[l2]])
    return LET[l2], acc, o2, p2


def aug_name(name):
    return name[:-1] if name.endswith("b") else name + "#"


def dim_name(name):
    return name[:-1] if name.endswith("#") else name + "b"


def in_domain(name):
    """the property quantifies over the 35 spelled names: a letter with at most
    two sharps or two flats (results of transposing them stay within the range
    the library can spell); histories that drift outside are not judged"""
    acc = name[1:]
    return len(acc) <= 2 and (acc == "#" * len(acc) or acc == "b" * len(acc))


class C11(Base):
    def __init__(self, prop, program):
        Base.__init__(self, prop, program)
        self.notes = []  # [obj, (name, octave)]
        self.conts = []  # dict(kind, obj, model=[entries]) entries: list of (value, beat, [ (name,oct) ] | None)
        self.stepped = set()  # containers that went through a transpose/augment/diminish already

    def state(self):
        return [list(n[1]) for n in self.notes] + [[c["kind"], [[None if e is None else [list(x) for x in e]] for e in c["model"]]] for c in self.conts]

    # -- single notes ----------------------------------------------------------
    def do_note(self, op):
        from mingus.containers.note import Note

        self.notes.append([Note(op["name"], op["octave"]), (op["name"], op["octave"])])
        self.trace.ev("note", op["name"], op["octave"])
        self.note_outcome("note", "accepted", self.state())

    def _note(self, i):
        return self.notes[i % len(self.notes)] if self.notes else None

    def do_n_set(self, op):
        n = self._note(op["note"])
        if n is None:
            return
        n[0].set_note(op["name"], op["octave"])
        n[1] = (op["name"], op["octave"])
        self.trace.ev("n_set", op["note"], op["name"], op["octave"])
        self.note_outcome("n_set", "accepted", self.state())

    def _judge_note(self, n, what, want_letter, want_pitch, feats, clause="C11.exact"):
        obj = n[0]
        self.clauses[clause] += 1
        ok = isinstance(obj.name, str) and len(obj.name) > 0 and obj.name[0] == want_letter and isinstance(obj.octave, int)
        if ok:
            try:
                ok = int(obj) == want_pitch
            except Exception:
                ok = False
        if not ok:
            self.fail(clause, "%s: %s-%s became %r-%r (pitch %s), expected letter %s at pitch %d" % (what, n[1][0], n[1][1], obj.name, obj.octave, _safe_int(obj), want_letter, want_pitch), **feats)
        n[1] = (obj.name, obj.octave) if isinstance(obj.name, str) and obj.name else n[1]
        return ok

    def do_n_transpose(self, op):
        n = self._note(op["note"])
        if n is None:
            return
        name, octave = n[1]
        sh, up = op["sh"], op.get("up", True)
        if not in_domain(name):
            self.probes["skipped_outside_name_domain"] += 1
            return
        L, acc, o2, p2 = expect_transpose(name, octave, sh, up)
        if p2 < 0 or o2 < 0:
            self.probes["transposed_below_octave_0"] += 1  # no floor applies to transposition: the pitch goes down exactly
        try:
            n[0].transpose(sh, up)
            exc = None
        except Exception as e:
            exc = e
        self.trace.ev("n_transpose", op["note"], sh, up, repr(n[0].name), n[0].octave, type(exc).__name__ if exc else None)
        feats = {"op": "n_transpose", "up": up, "degree": int(sh[-1])}
        self.probes["grid:%s" % ("up" if up else "down")] += 1
        if exc is not None:
            self.fail("C11.exact", "transposing %s-%d by %s %s raised %s: %s" % (name, octave, sh, "up" if up else "down", type(exc).__name__, exc), **feats)
        else:
            self._judge_note(n, "transpose(%r, up=%s)" % (sh, up), L, p2, feats)
        self.note_outcome("n_transpose", "raised" if exc else "accepted", self.state())

    def do_round_trip(self, op):
        n = self._note(op["note"])
        if n is None:
            return
        name, octave = n[1]
        if not in_domain(name):
            self.probes["skipped_outside_name_domain"] += 1
            return  # only canonical names (only sharps or only flats), at most two accidentals
        sh = op["sh"]
        first_up = op.get("first_up", True)
        L, acc, o2, p2 = expect_transpose(name, octave, sh, first_up)
        self.clauses["C11.round_trip"] += 1
        try:
            n[0].transpose(sh, first_up)
            n[0].transpose(sh, not first_up)
            exc = None
        except Exception as e:
            exc = e
        self.trace.ev("round_trip", op["note"], sh, first_up, repr(n[0].name), n[0].octave)
        if exc is not None:
            self.fail("C11.round_trip", "%s-%d %s then back by %s raised %s" % (name, octave, "up" if first_up else "down", sh, type(exc).__name__), op="round_trip")
        elif (n[0].name, n[0].octave) != (name, octave):
            self.fail("C11.round_trip", "%s-%d %s and back by %s gives %r-%r" % (name, octave, "up" if first_up else "down", sh, n[0].name, n[0].octave), op="round_trip", first_up=first_up)
            if isinstance(n[0].name, str) and n[0].name:
                n[1] = (n[0].name, n[0].octave)
        self.note_outcome("round_trip", "raised" if exc else "accepted", self.state())

    def do_n_augdim(self, op):
        n = self._note(op["note"])
        if n is None:
            return
        name, octave = n[1]
        seq = op.get("seq", ["aug", "dim"])
        want = name
        try:
            for st in seq:
                if st == "aug":
                    n[0].augment()
                    want = aug_name(want)
                else:
                    n[0].diminish()
                    want = dim_name(want)
            exc = None
        except Exception as e:
            exc = e
        self.clauses["C11.aug_dim"] += 1
        self.trace.ev("n_augdim", op["note"], seq, repr(n[0].name))
        if exc is not None or n[0].name != want or n[0].octave != octave:
            self.fail("C11.aug_dim", "%s on %s-%d gives %r-%r, expected %s-%d" % ("/".join(seq), name, octave, n[0].name, n[0].octave, want, octave), op="n_augdim")
        if isinstance(n[0].name, str) and n[0].name:
            n[1] = (n[0].name, n[0].octave)
        self.note_outcome("n_augdim", "raised" if exc else "accepted", self.state())

    def do_n_octave(self, op):
        n = self._note(op["note"])
        if n is None:
            return
        name, octave = n[1]
        d = op["d"]
        try:
            if op.get("via") == "up":
                n[0].octave_up()
                d = 1
            elif op.get("via") == "down":
                n[0].octave_down()
                d = -1
            else:
                n[0].change_octave(d)
            exc = None
        except Exception as e:
            exc = e
        want = max(0, octave + d)
        self.clauses["C11.octave_floor"] += 1
        if octave + d < 0:
            self.probes["octave_floor_hit"] += 1
        self.trace.ev("n_octave", op["note"], d, n[0].octave)
        if exc is not None or n[0].octave != want or n[0].name != name:
            self.fail("C11.octave_floor", "changing the octave of %s-%d by %d gives %r-%r, expected %s-%d" % (name, octave, d, n[0].name, n[0].octave, name, want), op="n_octave", below_zero=octave + d < 0)
        n[1] = (n[0].name, n[0].octave)
        self.note_outcome("n_octave", "raised" if exc else "accepted", self.state())

    # -- containers -----------------------------------------------------------------
    def do_nc(self, op):
        from mingus.containers.note import Note
        from mingus.containers.note_container import NoteContainer

        notes = [Note(n, o) for n, o in op["notes"]]
        nc = NoteContainer(notes)
        self.conts.append({"kind": "nc", "obj": nc, "model": [[(n.name, n.octave) for n in nc]]})
        self.trace.ev("nc", op["notes"])
        self.note_outcome("nc", "accepted", self.state())

    def do_bar(self, op):
        from mingus.containers.bar import Bar
        from mingus.containers.note import Note

        b = Bar("C", tuple(op.get("meter", [4, 4])))
        for e in op["entries"]:
            v = score.sym_value(e["v"])
            if e["notes"] is None:
                b.place_rest(v)
            else:
                b.place_notes([Note(n, o) for n, o in e["notes"]], v)
        self.conts.append({"kind": "bar", "obj": b, "model": self._read(b, "bar")})
        self.trace.ev("bar", len(b))
        self.note_outcome("bar", "accepted", self.state())

    def do_track(self, op):
        from mingus.containers.track import Track
        from mingus.containers.note import Note

        t = Track()
        for e in op["entries"]:
            v = score.sym_value(e["v"])
            if e["notes"] is None:
                t.add_notes(None, v)
            else:
                t.add_notes([Note(n, o) for n, o in e["notes"]], v)
        self.conts.append({"kind": "track", "obj": t, "model": self._read(t, "track")})
        self.trace.ev("track", len(t))
        self.note_outcome("track", "accepted", self.state())

    def do_track_fc(self, op):
        """a track built by the library itself from a chord list: items that do not
        fit are split across bar lines by from_chords"""
        from mingus.containers.track import Track

        t = Track()
        try:
            t.from_chords(op["chords"], op["duration"])
        except Exception as e:
            self.trace.ev("track_fc_exc", type(e).__name__)
            return
        if len(t) > 1:
            self.probes["track_from_chords_with_splits"] += 1
        self.conts.append({"kind": "track", "obj": t, "model": self._read(t, "track")})
        self.trace.ev("track_fc", len(t))
        self.note_outcome("track_fc", "accepted", self.state())

    def _read(self, obj, kind):
        if kind == "nc":
            return [safe_notes(obj)]
        if kind == "bar":
            return [safe_notes(e[2]) for e in obj.bar]
        return [safe_notes(e[2]) for b in obj.bars for e in b.bar]

    def _frame(self, obj, kind):
        """values and start beats (bit-identical before/after) and the rest pattern"""
        if kind == "nc":
            return []
        bars = [obj] if kind == "bar" else obj.bars
        return [(repr(e[0]), repr(e[1]), e[2] is None) for b in bars for e in b.bar] + [(repr(b.current_beat), repr(b.length)) for b in bars]

    def do_c_op(self, op):
        if not self.conts:
            return
        c = self.conts[op["target"] % len(self.conts)]
        kind, obj = c["kind"], c["obj"]
        what = op["what"]
        sh, up = op.get("sh", "3"), op.get("up", True)
        # model: the same operation on every note
        want = []
        possible = True
        if what == "transpose" and any(not in_domain(name) for e in c["model"] if e is not None for (name, octave) in e):
            self.probes["skipped_outside_name_domain"] += 1
            return
        for e in c["model"]:
            if e is None:
                want.append(None)
                continue
            w = []
            for (name, octave) in e:
                if what == "transpose":
                    L, acc, o2, p2 = expect_transpose(name, octave, sh, up)
                    w.append((L, p2))
                elif what == "augment":
                    w.append((aug_name(name), octave))
                else:
                    w.append((dim_name(name), octave))
            want.append(w)
        if not possible:
            return
        frame0 = self._frame(obj, kind)
        try:
            if what == "transpose":
                obj.transpose(sh, up)
            elif what == "augment":
                obj.augment()
            else:
                obj.diminish()
            exc = None
        except Exception as e:
            exc = e
        self.clauses["C11.lift"] += 1
        self.stepped.add(id(obj))
        feats = {"op": "c_" + what, "level": kind}
        self.trace.ev("c_op", op["target"], kind, what, sh, up, type(exc).__name__ if exc else None)
        if any(e is None for e in c["model"]):
            self.probes["container_with_rest"] += 1
        if exc is not None:
            self.fail("C11.lift", "%s.%s raised %s: %s" % (kind, what, type(exc).__name__, exc), **feats)
        else:
            got = self._read(obj, kind)
            bad = None
            if len(got) != len(want):
                bad = "number of entries changed from %d to %d" % (len(want), len(got))
            else:
                for i, (g, w) in enumerate(zip(got, want)):
                    if (g is None) != (w is None):
                        bad = "entry %d: rest/notes changed" % i
                        break
                    if g is None:
                        continue
                    if len(g) != len(w):
                        bad = "entry %d: %d notes became %d" % (i, len(w), len(g))
                        break
                    for (gn, go), ww in zip(g, w):
                        if what == "transpose":
                            okk = isinstance(gn, str) and gn and gn[0] == ww[0] and score.pitch_of(gn, go) == ww[1]
                        else:
                            okk = (gn, go) == ww
                        if not okk:
                            bad = "entry %d: note became %r-%r, the same operation on the note alone gives %s" % (i, gn, go, ww)
                            break
                    if bad:
                        break
            if bad is None and self._frame(obj, kind) != frame0:
                bad = "durations / beat positions / rests changed"
            if bad:
                self.fail("C11.lift", "%s.%s(%s): %s" % (kind, what, (sh, up) if what == "transpose" else "", bad), **feats)
            c["model"] = [None if e is None else [(n, o) for (n, o) in e] for e in self._read(obj, kind)]
        self.note_outcome("c_" + what + ":" + kind, "raised" if exc else "accepted", self.state())

    def do_c_edit(self, op):
        """an edit of the container between two transposition steps (the 'history' the property
        quantifies over): an entry replaced in place, a rest turned into notes, the last entry taken
        off and another put there, an entry or a note appended or removed.  The edit itself is judged
        by C12-C14; here it only changes what the next transpose/augment/diminish has to reach, so the
        model is re-read from the stored lists afterwards."""
        if not self.conts:
            return
        from mingus.containers.note import Note
        from mingus.containers.note_container import NoteContainer

        c = self.conts[op["target"] % len(self.conts)]
        kind, obj = c["kind"], c["obj"]
        how = op["how"]
        fresh = lambda: [Note(n, o) for n, o in op["notes"]]
        done = None
        try:
            if kind == "nc":
                if how in ("append", "setitem") and op["notes"]:
                    obj.add_notes(fresh())
                    done = "nc_add"
                elif len(obj.notes) > 1:
                    obj.remove_note(obj.notes[op["index"] % len(obj.notes)])
                    done = "nc_remove"
            else:
                bars = [obj] if kind == "bar" else [b for b in obj.bars]
                bars = [b for b in bars if len(b.bar) > 0]
                if bars:
                    b = bars[op["bar"] % len(bars)]
                    i = op["index"] % len(b.bar)
                    if how == "setitem":
                        was_rest = b.bar[i][2] is None
                        b[i] = NoteContainer(fresh()) if op.get("as_nc", True) else fresh()
                        done = "rest_to_notes" if was_rest else "setitem"
                    elif how == "relast":
                        v = b.bar[-1][1]
                        b.remove_last_entry()
                        b.place_notes(fresh(), v)
                        done = "relast"
                    elif how == "append":
                        v = score.sym_value(op["v"])
                        ok = b.place_notes(fresh(), v) if kind == "bar" else obj.add_notes(fresh(), v)
                        done = "append" if ok else "append_refused"
                    else:
                        if len(b.bar) > 1:
                            b.remove_last_entry()
                            done = "remove_last"
        except Exception as e:
            done = "raised:" + type(e).__name__
        self.trace.ev("c_edit", op["target"], kind, how, done)
        if done is None:
            return
        self.probes["edit_between_steps:" + done.split(":")[0]] += 1
        if id(obj) in getattr(self, "stepped", ()):
            self.probes["edit_after_an_earlier_step_on_the_same_container"] += 1
        c["model"] = [None if e is None else [(n, o) for (n, o) in e] for e in self._read(obj, kind)]
        self.note_outcome("c_edit:" + kind + ":" + done.split(":")[0], "raised" if done.startswith("raised") else "accepted", self.state())

    def do_c_augdim(self, op):
        """augment followed by diminish is the identity on names, at every level"""
        if not self.conts:
            return
        c = self.conts[op["target"] % len(self.conts)]
        kind, obj = c["kind"], c["obj"]
        before = self._read(obj, kind)
        frame0 = self._frame(obj, kind)
        try:
            if op.get("first", "aug") == "aug":
                obj.augment()
                obj.diminish()
            else:
                obj.diminish()
                obj.augment()
            exc = None
        except Exception as e:
            exc = e
        self.clauses["C11.aug_dim"] += 1
        self.trace.ev("c_augdim", op["target"], kind, type(exc).__name__ if exc else None)
        if exc is not None or self._read(obj, kind) != before or self._frame(obj, kind) != frame0:
            self.fail("C11.aug_dim", "%s: augment/diminish is not the identity: %s -> %s" % (kind, before[:4], self._read(obj, kind)[:4]), op="c_augdim", level=kind)
            c["model"] = self._read(obj, kind)
        self.note_outcome("c_augdim:" + kind, "raised" if exc else "accepted", self.state())


def _safe_int(o):
    try:
        return int(o)
    except Exception:
        return "?"


C11_NAMES = ["C", "D", "E", "F", "G", "A", "B", "C#", "D#", "F#", "G#", "A#", "Db", "Eb", "Gb", "Ab", "Bb", "E#", "B#", "Cb", "Fb", "C##", "F##", "Bbb", "Ebb", "G##", "Abb", "D##", "Gbb", "Dbb", "A##", "E##", "Fbb", "Cbb", "B##"]


def gen_c11(rng, tier):
    cfg = {"mode": rng.choice(["notes", "notes", "containers", "containers", "all"])}
    cfg["edits"] = cfg["mode"] != "notes" and rng.random() < 0.5  # containers edited between the steps
    ops = []
    nn = rng.randrange(1, 4)
    for _ in range(nn):
        ops.append({"op": "note", "name": rng.choice(C11_NAMES), "octave": rng.choice([0, 1, 2, 3, 4, 4, 5, 6, 7, 8])})

    def spec():
        return [rng.choice(C11_NAMES[:24]), rng.choice([2, 3, 4, 4, 5, 6])]

    def entries(n):
        out = []
        for _ in range(n):
            v = rng.choice([[1, 0, 1, 1], [2, 0, 1, 1], [4, 0, 1, 1], [4, 0, 1, 1], [8, 0, 1, 1], [8, 1, 1, 1], [8, 0, 3, 2], [16, 0, 1, 1], [4, 1, 1, 1]])
            if rng.random() < 0.25:
                out.append({"v": v, "notes": None})
            elif rng.random() < 0.06:
                out.append({"v": v, "notes": []})  # an empty container: no notes, but not None either
            else:
                seen, ns = set(), []
                for _ in range(rng.choice([1, 1, 2, 3, 3, 4, 5, 6])):
                    sp = spec()
                    pp = score.pitch_of(sp[0], sp[1])
                    if pp not in seen:
                        seen.add(pp)
                        ns.append(sp)
                out.append({"v": v, "notes": ns})
        return out

    nc = 0
    if cfg["mode"] != "notes":
        for _ in range(rng.randrange(1, 4)):
            k = rng.choice(["nc", "bar", "track", "track", "track_fc"])
            if k == "track_fc":
                ops.append({"op": "track_fc", "chords": gen_chords(rng), "duration": rng.choice([1, 1, 2, 0.5, 4])})
            elif k == "nc":
                ops.append({"op": "nc", "notes": [s for s in entries(1)[0]["notes"] or [spec()]]})
            elif k == "bar":
                ops.append({"op": "bar", "meter": rng.choice([[4, 4], [3, 4], [6, 8]]), "entries": entries(rng.randrange(1, 6))})
            else:
                ops.append({"op": "track", "entries": entries(rng.randrange(1, 14))})
            nc += 1
    for _ in range(rng.randrange(3, 30)):
        r = rng.random()
        if cfg["mode"] == "containers" or (cfg["mode"] == "all" and r < 0.5):
            rr = rng.random()
            if cfg.get("edits") and rng.random() < 0.3:
                ns = entries(1)[0]["notes"] or [spec()]
                ops.append({"op": "c_edit", "target": rng.randrange(max(1, nc)), "how": rng.choice(["setitem", "setitem", "relast", "append", "remove"]), "bar": rng.randrange(8), "index": rng.randrange(8),
                            "notes": ns, "as_nc": rng.random() < 0.7, "v": rng.choice([[4, 0, 1, 1], [8, 0, 1, 1], [16, 0, 1, 1], [2, 0, 1, 1]])})
                continue
            if rr < 0.6:
                ops.append({"op": "c_op", "target": rng.randrange(max(1, nc)), "what": "transpose", "sh": rng.choice(SH_ALL), "up": rng.random() < 0.5})
            elif rr < 0.8:
                ops.append({"op": "c_op", "target": rng.randrange(max(1, nc)), "what": rng.choice(["augment", "diminish"])})
            else:
                ops.append({"op": "c_augdim", "target": rng.randrange(max(1, nc)), "first": rng.choice(["aug", "dim"])})
        else:
            i = rng.randrange(nn)
            rr = rng.random()
            if rr < 0.5:
                ops.append({"op": "n_transpose", "note": i, "sh": rng.choice(SH_ALL), "up": rng.random() < 0.5})
            elif rr < 0.7:
                ops.append({"op": "round_trip", "note": i, "sh": rng.choice(SH_ALL), "first_up": rng.random() < 0.7})
            elif rr < 0.78:
                ops.append({"op": "n_set", "note": i, "name": rng.choice(C11_NAMES), "octave": rng.choice([0, 1, 2, 3, 4, 5, 6, 7, 8])})
            elif rr < 0.88:
                ops.append({"op": "n_augdim", "note": i, "seq": rng.choice([["aug", "dim"], ["dim", "aug"], ["aug"], ["dim"], ["aug", "aug", "dim", "dim"]])})
            else:
                ops.append({"op": "n_octave", "note": i, "d": rng.choice([-9, -3, -2, -1, 1, 2]), "via": rng.choice(["change", "change", "up", "down"])})
    return {"prop": "C11", "cfg": cfg, "ops": ops[:60]}


# ===========================================================================
# dispatch
# ===========================================================================

EXEC = {"C13": C13, "C12": C12, "C14": C14, "C11": C11}
GEN = {"C13": gen_c13, "C12": gen_c12, "C14": gen_c14, "C11": gen_c11}


def execute(prop, program):
    return EXEC[prop](prop, program).run()


def generate(rng, prop, tier):
    prog = GEN[prop](rng, tier)
    prog["ops"] = world.sprinkle_theory(rng, prog["ops"], p_head=0.25, p_between=0.02)
    return prog


def simplify_op(prop, op):
    out = []
    if "content" in op and op["content"][0] not in ("name", "none"):
        out.append(dict(op, content=["name", "C"]))
    if "content" in op and op["content"] == ["name", "C"] and op["op"] in ("place",):
        pass
    if op.get("v") and (op["v"][1] or op["v"][2] != 1):
        out.append(dict(op, v=[op["v"][0], 0, 1, 1]))
    if op.get("key") not in (None, "C"):
        out.append(dict(op, key="C"))
    if op["op"] == "place" and "content" in op and prop == "C13":
        out.append({"op": "rest", "bar": op["bar"], "v": op["v"]})
    return out


def tiers(prop):
    return {"quick": 20000, "thorough": 600000}


def legs(prop, tier):
    return []


DESCR = {
    "C11": {
        "rule": "Each run is one seeded history on a world built without aliasing (every Note is created for its place): transpose(shorthand, up) with the interval shorthands of size 0-11, augment, diminish, change_octave/octave_up/octave_down and up-then-down round trips on notes; transpose/augment/diminish and augment-then-diminish on note containers, bars and tracks (notes, chords, rests, mixed durations); sequences of them. Model: letter moves by (degree-1), pitch by +-size. Non-trivial = at least two operations applied. Distinct = distinct run shape.",
        "clauses": ["C11.exact", "C11.round_trip", "C11.lift", "C11.aug_dim", "C11.octave_floor", "C11.stall"],
        "probes": ["grid:up", "grid:down", "container_with_rest", "octave_floor_hit", "transposed_below_octave_0", "track_from_chords_with_splits", "skipped_outside_name_domain", "edit_between_steps:setitem", "edit_between_steps:rest_to_notes", "edit_between_steps:relast", "edit_between_steps:append", "edit_between_steps:append_refused", "edit_between_steps:remove_last", "edit_between_steps:nc_add", "edit_between_steps:nc_remove", "edit_between_steps:raised", "edit_after_an_earlier_step_on_the_same_container", "theory_chatter_ops", "theory_chatter_call_refused", "theory_chatter_call_cut_short"],
        "assumptions": ["the single-note clauses are pure functions of their input; they ride along inside histories because the history engine calls them anyway", "names are the 35 spelled names of the property's grid (a letter with at most two sharps or two flats); a history that has drifted to more accidentals is not judged until the note is set again (counted as skipped_outside_name_domain), because the library spells at most six accidentals and the statement's quantifier does not reach there", "round trips are demanded for canonical names only (only sharps or only flats)", "transposition has no floor: from octave 0 downwards the pitch number goes negative exactly (only change_octave clamps); invalid shorthands are not generated (the statement is silent)"],
    },
    "C14": {
        "rule": "Each run is one seeded history on up to three tracks and one composition: Track(instrument) for none/Instrument/Piano/Guitar/MidiInstrument, add_notes with notes, chords and rests in and out of range, track + x, add_bar (only when the track is empty or its last bar is full), from_chords with nested lists and None rests, composition add_track / + / add_note / selected_tracks, and protocol queries (len, indexing, equality against a twin rebuilt from the same items, test_integrity). The acceptance decision is read from what the call reported (the capacity rule is C13's). Non-trivial = at least two operations applied. Distinct = distinct run shape.",
        "clauses": ["C14.iterate", "C14.reject_atomic", "C14.integrity", "C14.inherit", "C14.conservation", "C14.rest_instrument", "C14.range", "C14.from_chords", "C14.selection", "C14.protocol", "C14.stall"],
        "probes": ["library_opened_a_bar", "item_refused", "rejected_item_left_fresh_empty_bar", "note_out_of_range", "rest_with_instrument", "from_chords_item_split", "several_tracks_selected", "some_track_not_selected", "composition_equality_checked", "fullness_dont_care_band", "model_resync", "theory_chatter_ops", "theory_chatter_call_refused", "theory_chatter_call_cut_short", "another_instrument_given_its_own_range"],
        "assumptions": ["'full' follows C13's tolerance: with an exact remainder in (0, 0.002] either behaviour is accepted and the model follows the observed one", "a freshly opened empty last bar after a rejected item is tolerated iff the previous last bar was full", "Guitar chords of more than six notes are not generated (the statement does not mention the string limit); five- and six-note chords are"],
    },
    "C12": {
        "rule": "Each run is one seeded history on up to three NoteContainers: every addition form (Note object, bare name, name+octave, 'Name-octave', lists mixing those, [name, octave(, dynamics)] rows, another container, '+', the constructor), every removal form (name, name+octave, Note, lists, '-'), empty, the chord/interval/progression shorthand constructors, malformed additions, and queries (len, in, ==, get_note_names, the four consonance predicates with both flag values), against an insertion-ordered pitch->spelling set model. Non-trivial = at least two operations applied. Distinct = distinct run shape.",
        "clauses": ["C12.content", "C12.sorted_unique", "C12.remove_name", "C12.remove_octave", "C12.voicing", "C12.constructors", "C12.protocol", "C12.consonance", "C12.stall"],
        "probes": ["voicing_ambiguous_spelling", "duplicate_pitch_ignored", "remove_name_in_several_octaves", "remove_octave_spares_other_octave", "equality_of_equal_containers", "consonance_on_three_or_more", "progression_checked_against_own_key_model", "spelling_differs_from_model", "model_resync", "theory_chatter_ops", "theory_chatter_call_refused", "theory_chatter_call_cut_short", "chord_checked_against_own_interval_model"],
        "assumptions": ["voicing of a bare name is predicted exactly only when both the top note and the new name are spelled inside their octave; for octave-wrapping spellings (B#, Cb, ...) only the set invariants are judged and the model follows the observed octave", "chord/progression constructors are compared with the names the theory functions return for the same shorthand (those functions are C06/C08's subject)"],
    },
    "C13": {
        "rule": "Each run is one seeded history on up to three bars: Bar()/set_meter with valid, (0,0) and invalid meters (fractional units under a line budget), place_notes with every content form, place_rest, '+', remove_last_entry, index assignment, place_notes_at, empty, queries; values are symbolic (base longa..128th, dots 0-4, triplet/quintuplet/septuplet) and the model keeps exact Fractions. A fill mode packs bars to exactly their capacity and then issues refused operations. All clauses are evaluated after every operation. Non-trivial = at least two operations applied. Distinct = distinct run shape (sequence of (operation, outcome)).",
        "clauses": ["C13.starts", "C13.total", "C13.accept", "C13.append", "C13.refuse_atomic", "C13.edit_local", "C13.full", "C13.meter", "C13.stall"],
        "probes": ["bar_exactly_full", "placement_fills_bar_exactly", "tuplet_fills_bar_exactly", "fullness_dont_care_band", "fractional_beat_unit", "negative_index_assignment", "model_resync", "theory_chatter_ops", "theory_chatter_call_refused", "theory_chatter_call_cut_short", "bar_created_after_others_have_history"],
    },
}


def describe(prop):
    d = DESCR[prop]
    return {
        "rule": d["rule"],
        "state_measure": "distinct model states (hash of the exact model after each operation); distinct_schedules counts distinct (previous operation, operation, outcome) triples",
        "fault_kinds": ["refused_operation", "raised_operation"],
        "probes": d["probes"],
        "clauses": d["clauses"],
        "components_real": ["mingus.containers (Note, NoteContainer, Bar, Track, Composition, Instrument family) and the mingus.core functions they call"],
        "components_stub": ["none (there is no environment to stub; the 'faults' are operations the API refuses or that raise, placed right after state changes)"],
        "assumptions": d.get("assumptions", []) + ["degenerate end of the technique: no clock, I/O or concurrency is simulated because none exists in this code"],
    }
