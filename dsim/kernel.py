# -*- coding: utf-8 -*-
"""Simulator kernel shared by all engines (DESIGN.md section 2).

One integer (VERIF_SEED) decides everything: run i of a check is a pure
function of (VERIF_SEED, engine id, property number, i) and the code of the
working tree.  Every run executes in a child forked from a pristine zygote
that has imported the library and called nothing, so process-global state of
the library can never leak between runs and a replay starts from the same
state as the original run.
"""
from __future__ import annotations

import hashlib
import io
import json
import os
import random
import signal
import sys
import time
import traceback

sys.dont_write_bytecode = True

VERIF = os.path.dirname(os.path.dirname(os.path.abspath(__file__)))
REPO = os.path.abspath(os.environ.get("VERIF_REPO", "/repo"))

M64 = (1 << 64) - 1


class HarnessError(Exception):
    """Something is wrong with the machinery, not with the property."""


class SimBudgetExceeded(BaseException):
    """A simulated seam (sleep/read/write/callback) or the line budget was hit
    more often than any terminating call could need.  BaseException so that
    the library's bare ``except:`` clauses that re-raise still propagate it
    in practice (they catch and convert; engines detect that via the flag)."""


def _sm(x):
    x = (x + 0x9E3779B97F4A7C15) & M64
    z = x
    z = ((z ^ (z >> 30)) * 0xBF58476D1CE4E5B9) & M64
    z = ((z ^ (z >> 27)) * 0x94D049BB133111EB) & M64
    return z ^ (z >> 31)


def run_seed(seed, engine_id, prop_num, i):
    """splitmix64 chain; integer arithmetic only (no hash(), time or pid)."""
    h = _sm(seed & M64)
    h = _sm(h ^ (engine_id & M64))
    h = _sm(h ^ (prop_num & M64))
    h = _sm(h ^ (i & M64))
    return h


def import_sut():
    """Import mingus from the working tree under test and nothing else."""
    if sys.path[0] != REPO:
        sys.path.insert(0, REPO)
    import warnings

    warnings.filterwarnings("ignore", category=SyntaxWarning)
    import mingus  # noqa

    f = os.path.abspath(mingus.__file__)
    if not f.startswith(REPO + os.sep):
        raise HarnessError("mingus imported from %s, expected under %s" % (f, REPO))
    return mingus


class Trace(object):
    """Event log of one run.  Only its SHA-256 leaves the run (plus a short
    tail for diagnostics).  Never draws randomness, never reads a clock."""

    def __init__(self, keep=0):
        self.h = hashlib.sha256()
        self.n = 0
        self.keep = keep
        self.tail = []

    def ev(self, *items):
        s = json.dumps(items, sort_keys=True, default=_enc_default)
        self.h.update(s.encode("utf-8"))
        self.h.update(b"\n")
        self.n += 1
        if self.keep:
            self.tail.append(s)
            if len(self.tail) > self.keep:
                del self.tail[0]

    def digest(self):
        return self.h.hexdigest()


def _enc_default(o):
    from fractions import Fraction

    if isinstance(o, Fraction):
        return "%d/%d" % (o.numerator, o.denominator)
    if isinstance(o, bytes):
        return o.hex()
    if isinstance(o, (set, frozenset)):
        return sorted(o)
    raise TypeError("unencodable in trace: %r" % (type(o),))


# ---------------------------------------------------------------------------
# fork isolation

_LIBC = None


def die_with_parent():
    """PR_SET_PDEATHSIG(SIGKILL): a worker or run child never outlives the
    process that started it (e.g. when a wall-clock timeout kills the check)."""
    global _LIBC
    try:
        if _LIBC is None:
            import ctypes

            _LIBC = ctypes.CDLL("libc.so.6", use_errno=True)
        _LIBC.prctl(1, 9, 0, 0, 0)
    except Exception:
        pass



SOFT_STALL_S = 15  # a run takes milliseconds; after this many seconds it is declared stuck


def _raise_stall(signum, frame):
    raise SimBudgetExceeded("wall-clock backstop: the call did not return")


def wall_stall(exc):
    """True when exc is the wall-clock backstop; also disarms it so that the
    harness can finish reporting without being interrupted again."""
    if isinstance(exc, SimBudgetExceeded) and str(exc).startswith("wall-clock backstop"):
        try:
            signal.setitimer(signal.ITIMER_REAL, 0)
        except Exception:
            pass
        return True
    return False


def forked(fn, args=(), alarm=60, soft=None):
    """Run fn(*args) in a forked child; return its JSON-able result.

    The child inherits the pristine zygote state.  A crash, a kill by the
    backstop alarm or an unparsable answer is a *harness error* result, never
    a pass and never a violation.  With ``soft`` set, the child first gets a
    SimBudgetExceeded raised inside whatever is running after that many seconds
    (and again every second, in case library code swallows it): engines report
    that as the ``stall`` clause of the property, with the op list as replay.
    This backstop is wall-clock based -- the deterministic budgets (seam-call
    caps, line budget) come first; it only exists so that a change that makes
    the library spin without touching a seam yields a violation with a replay
    instead of a harness error."""
    r, w = os.pipe()
    pid = os.fork()
    if pid == 0:
        code = 0
        try:
            os.close(r)
            die_with_parent()
            if soft:
                signal.signal(signal.SIGALRM, _raise_stall)
                signal.setitimer(signal.ITIMER_REAL, soft, 1.0)
            else:
                signal.signal(signal.SIGALRM, signal.SIG_DFL)
                signal.alarm(alarm)
            import gc

            gc.disable()  # cyclic GC timing depends on the parent's allocation history
            sys.stdout = io.StringIO()
            sys.stderr = io.StringIO()
            try:
                out = fn(*args)
                data = json.dumps(out, default=_enc_default)
            except BaseException:
                data = json.dumps({"harness_error": traceback.format_exc()})
            b = data.encode("utf-8")
            off = 0
            while off < len(b):
                off += os.write(w, b[off : off + 65536])
        except BaseException:
            code = 3
        finally:
            os._exit(code)
    os.close(w)
    chunks = []
    import select

    hard = time.time() + (alarm + (soft or 0) + 30)
    while True:
        left = hard - time.time()
        if left <= 0:
            try:
                os.kill(pid, signal.SIGKILL)
            except OSError:
                pass
            break
        ready, _, _ = select.select([r], [], [], min(left, 5.0))
        if not ready:
            continue
        c = os.read(r, 1 << 16)
        if not c:
            break
        chunks.append(c)
    os.close(r)
    _, status = os.waitpid(pid, 0)
    if os.WIFSIGNALED(status):
        return {"harness_error": "child killed by signal %d (backstop alarm=%ds)" % (os.WTERMSIG(status), alarm)}
    if os.WEXITSTATUS(status) != 0:
        return {"harness_error": "child exit status %d" % os.WEXITSTATUS(status)}
    try:
        return json.loads(b"".join(chunks).decode("utf-8"))
    except Exception:
        return {"harness_error": "unparsable child answer (%d bytes)" % sum(map(len, chunks))}


# ---------------------------------------------------------------------------
# line budget for library calls that can spin without touching a seam


class LineBudget(object):
    """Deterministic stall detector: counts 'line' trace events inside one
    library call and raises SimBudgetExceeded past the budget."""

    def __init__(self, budget=20000):
        self.budget = budget
        self.count = 0
        self.tripped = False

    def _tracer(self, frame, event, arg):
        if event == "line":
            self.count += 1
            if self.count > self.budget:
                self.tripped = True
                raise SimBudgetExceeded("line budget %d exceeded" % self.budget)
        return self._tracer

    def call(self, fn, *a, **kw):
        self.count = 0
        self.tripped = False
        old = sys.gettrace()
        sys.settrace(self._tracer)
        try:
            return fn(*a, **kw)
        finally:
            sys.settrace(old)


# ---------------------------------------------------------------------------
# known findings


class Findings(object):
    def __init__(self, path=None):
        path = path or os.path.join(VERIF, "known_findings.json")
        self.entries = []
        if os.path.exists(path):
            with open(path) as f:
                self.entries = json.load(f).get("findings", [])

    def open_for(self, prop):
        return [e for e in self.entries if e.get("status") == "open" and e["property"] == prop]

    def match(self, prop, failure):
        """Return the id of the open finding that lists this failure, or None.
        A finding lists a failure when the clause is equal and every key of
        its 'match' dict has the same value in the failure's features."""
        feats = failure.get("features", {})
        for e in self.open_for(prop):
            if e["clause"] != failure["clause"]:
                continue
            if all(feats.get(k) == v for k, v in e.get("match", {}).items()):
                return e["id"]
        return None


# ---------------------------------------------------------------------------
# minimisation (ddmin over the op list, then argument simplification)


def _same_failure(result, clause, sig):
    if "harness_error" in result:
        return False
    for f in result.get("failures", []):
        if f["clause"] == clause and (sig is None or feature_sig(f) == sig):
            return True
    return False


def feature_sig(failure):
    return json.dumps([failure["clause"], failure.get("features", {})], sort_keys=True)


def minimise(engine, prop, program, clause, sig, budget=1500):
    """Shrink program['ops'] while a failure of the same clause with the same
    feature signature persists.  Every candidate runs in its own fork."""
    tests = [0]

    def fails(ops):
        if tests[0] >= budget:
            return False
        tests[0] += 1
        cand = dict(program)
        cand["ops"] = ops
        res = forked(engine.execute, (prop, cand), soft=SOFT_STALL_S)
        return _same_failure(res, clause, sig)

    ops = list(program["ops"])
    # ddmin
    n = 2
    while len(ops) >= 2:
        chunk = max(1, len(ops) // n)
        reduced = False
        i = 0
        while i < len(ops):
            cand = ops[:i] + ops[i + chunk :]
            if cand and fails(cand):
                ops = cand
                n = max(n - 1, 2)
                reduced = True
            else:
                i += chunk
        if not reduced:
            if chunk == 1:
                break
            n = min(n * 2, len(ops))
    # single-op removal to a fixed point + argument simplification
    changed = True
    while changed and tests[0] < budget:
        changed = False
        i = 0
        while i < len(ops):
            cand = ops[:i] + ops[i + 1 :]
            if cand and fails(cand):
                ops = cand
                changed = True
            else:
                i += 1
        for i in range(len(ops)):
            for simpler in engine.simplify_op(prop, ops[i]):
                if simpler == ops[i]:
                    continue
                cand = ops[:i] + [simpler] + ops[i + 1 :]
                if fails(cand):
                    ops = cand
                    changed = True
                    break
        # structural (multi-op) simplifications offered by the engine
        sp = getattr(engine, "simplify_program", None)
        if sp is not None:
            progress = True
            while progress and tests[0] < budget:
                progress = False
                for cand in sp(prop, ops):
                    if cand != ops and fails(cand):
                        ops = cand
                        changed = True
                        progress = True
                        break
    out = dict(program)
    out["ops"] = ops
    return out, tests[0]


# ---------------------------------------------------------------------------
# one run (executed inside a forked child)


def child_run(engine, prop, tier, seed, index, want_program):
    rs = run_seed(seed, engine.ENGINE_ID, int(prop[1:]), index)
    rng = random.Random(rs)
    program = engine.generate(rng, prop, tier)
    program["run_seed"] = rs
    res = engine.execute(prop, program)
    res["run_seed"] = rs
    if want_program or res.get("failures"):
        res["program"] = program
    return res


def child_replay(engine, prop, program):
    return engine.execute(prop, program)
