# -*- coding: utf-8 -*-
"""Proving the simulator itself (DESIGN.md 2.7).

determinism: the same run seeds executed (a) sequentially in this process's
    children, (b) in a 16-worker pool, (c) in a fresh interpreter under another
    PYTHONHASHSEED; the SHA-256 of every run's event log must be identical.
mutants: every patch of /verif/mutants is applied to a scratch copy of /repo
    outside /repo and /verif; the registered quick check of its property runs
    with VERIF_REPO pointing there and must exit 1 with a reproducing replay.
"""
from __future__ import annotations

import concurrent.futures as cf
import json
import multiprocessing
import os
import shutil
import subprocess
import sys
import tempfile
import time

from . import kernel, runner

PY = sys.executable
CHECK = os.path.join(kernel.VERIF, "check.py")


def _digests_local(prop, indices, seed):
    eng = runner.load_engine(prop)
    if hasattr(eng, "prepare_main"):
        eng.prepare_main(prop, 8)
    eng.preload(prop)
    out = {}
    for i in indices:
        r = kernel.forked(kernel.child_run, (eng, prop, "quick", seed, i, False))
        out[i] = r.get("digest", "ERR:" + r.get("harness_error", "?")[-120:])
    return out


def _pool_digests(prop, indices, seed, workers):
    eng = runner.load_engine(prop)
    if hasattr(eng, "prepare_main"):
        eng.prepare_main(prop, workers)
    ctx = multiprocessing.get_context("fork")
    out = {}
    with cf.ProcessPoolExecutor(max_workers=workers, mp_context=ctx, initializer=runner._init_worker, initargs=(prop, "quick", seed)) as ex:
        futs = [ex.submit(runner.verify_digests, indices[k : k + 10]) for k in range(0, len(indices), 10)]
        for f in futs:
            out.update(f.result())
    return out


def digests_cmd(prop, indices, seed):
    """entry for the fresh-interpreter leg: prints JSON"""
    print("DIGESTS " + json.dumps(_digests_local(prop, indices, seed), sort_keys=True))
    return 0


def determinism(args):
    props = [a for a in args if a in runner.ENGINES] or sorted(runner.ENGINES)
    n = 240
    seed = int(os.environ.get("VERIF_SEED", "0") or 0)
    bad = 0
    for prop in props:
        t0 = time.time()
        idx = list(range(0, n))
        a = _digests_local(prop, idx, seed)
        b = _pool_digests(prop, idx, seed, 16)
        c2 = _pool_digests(prop, idx, seed, 3)
        env = dict(os.environ, PYTHONHASHSEED="987654321")
        p = subprocess.run([PY, CHECK, "_digests", prop, str(seed), ",".join(map(str, idx))], capture_output=True, text=True, env=env, timeout=3600)
        line = [l for l in p.stdout.splitlines() if l.startswith("DIGESTS ")]
        c = {int(k): v for k, v in json.loads(line[0][8:]).items()} if line else {}
        mism = [i for i in idx if not (a[i] == b.get(i) == c2.get(i) == c.get(i))]
        errs = [i for i in idx if str(a[i]).startswith("ERR")]
        print("determinism %s: %d runs x 4 executions (sequential, 16 workers, 3 workers, fresh interpreter with another PYTHONHASHSEED): %d mismatches, %d harness errors, %.1fs" % (prop, n, len(mism), len(errs), time.time() - t0))
        for i in mism[:5]:
            print("   run %d: %s | %s | %s | %s" % (i, a[i][:16], str(b.get(i))[:16], str(c2.get(i))[:16], str(c.get(i))[:16]))
        bad += len(mism) + len(errs)
        sys.stdout.flush()
    return 2 if bad else 0


# ---------------------------------------------------------------------------


def _scratch_copy():
    d = tempfile.mkdtemp(prefix="mingus-mutant-")
    subprocess.check_call(["rsync", "-a", "--exclude", ".git", "--exclude", "__pycache__", "/repo/", d + "/"])
    return d


def run_mutant(entry, with_tests, workers):
    d = _scratch_copy()
    res = {"name": entry["name"], "property": entry["property"]}
    try:
        p = subprocess.run(["patch", "-p1", "-s", "-i", os.path.join(kernel.VERIF, "mutants", entry["patch"])], cwd=d, capture_output=True, text=True)
        if p.returncode != 0:
            res["status"] = "patch-failed"
            res["detail"] = (p.stdout + p.stderr)[-300:]
            return res
        if with_tests:
            t = subprocess.run([PY, "-m", "pytest", "-q", "-x", "-p", "no:cacheprovider", "--timeout=600", "--ignore=tests/integration/test_fluidsynth.py", "tests"], cwd=d, capture_output=True, text=True, timeout=1200, env=dict(os.environ, PYTHONDONTWRITEBYTECODE="1"))
            tail = t.stdout.strip().splitlines()[-1] if t.stdout.strip() else ""
            res["tests"] = "pass" if t.returncode == 0 else "FAIL"
            res["tests_tail"] = tail
        env = dict(os.environ, VERIF_REPO=d, VERIF_WORKERS=str(workers), VERIF_REPLAY_DIR=os.path.join(d, "_replays"), VERIF_EVIDENCE_DIR=os.path.join(d, "_evidence"))
        t0 = time.time()
        c = subprocess.run([PY, CHECK, entry["property"], "--tier", "quick"], capture_output=True, text=True, env=env, timeout=3600)
        res["exit"] = c.returncode
        res["wall_s"] = round(time.time() - t0, 1)
        vio = [l for l in c.stdout.splitlines() if l.startswith("violated clause")]
        res["clauses"] = sorted(set(l.split()[2].rstrip(":") for l in vio))
        res["status"] = "caught" if c.returncode == 1 and "VIOLATION property=" in c.stdout else ("harness-error" if c.returncode == 2 else "SURVIVED")
        if res["status"] != "caught":
            res["detail"] = c.stdout[-400:]
        return res
    finally:
        shutil.rmtree(d, ignore_errors=True)


def mutants(args):
    with_tests = "--tests" in args
    names = [a for a in args if not a.startswith("--")]
    index = json.load(open(os.path.join(kernel.VERIF, "mutants", "INDEX.json")))
    if names:
        index = [e for e in index if e["name"] in names or e["property"] in names or e["patch"] in names]
    par = 4
    workers = max(2, (os.cpu_count() or 4) // par)
    results = []
    with cf.ThreadPoolExecutor(max_workers=par) as ex:
        futs = {ex.submit(run_mutant, e, with_tests, workers): e for e in index}
        for f in cf.as_completed(futs):
            r = f.result()
            results.append(r)
            print("%-9s %s/%-45s tests=%-5s clauses=%s %ss" % (r["status"], r["property"], r["name"], r.get("tests", "-"), ",".join(r.get("clauses", [])), r.get("wall_s", "-")))
            if r["status"] not in ("caught",):
                print("      " + r.get("detail", "").replace("\n", "\n      ")[-400:])
            sys.stdout.flush()
    results.sort(key=lambda r: (r["property"], r["name"]))
    out = os.path.join(kernel.VERIF, "mutants", "RESULTS.json")
    if not names:
        # the test-suite column does not depend on the checks: keep it from the last run made with --tests
        try:
            old = {(o["property"], o["name"]): o for o in json.load(open(out))}
        except Exception:
            old = {}
        for r in results:
            o = old.get((r["property"], r["name"]), {})
            for k in ("tests", "tests_tail"):
                if k not in r and k in o:
                    r[k] = o[k]
        json.dump(results, open(out, "w"), indent=1, sort_keys=True)
    caught = sum(1 for r in results if r["status"] == "caught")
    print("mutants: %d/%d caught" % (caught, len(results)))
    return 0 if caught == len(results) else 1
