# -*- coding: utf-8 -*-
"""Batch runner: distributes runs over forked workers, aggregates in run-index
order, minimises, verifies replays in a fresh interpreter, writes evidence.

Exit codes: 0 property held on everything explored (known findings printed),
1 at least one unlisted violation (VIOLATION lines printed), 2 harness error.
"""
from __future__ import annotations

import collections
import concurrent.futures as cf
import hashlib
import importlib
import json
import multiprocessing
import os
import subprocess
import sys
import time

from . import kernel
from .kernel import Findings, feature_sig, forked

ENGINES = {
    "C18": "dsim.engines.seqsim",
    "C16": "dsim.engines.midifs",
    "C17": "dsim.engines.midifs",
    "C15": "dsim.engines.shared",
    "C11": "dsim.engines.containers",
    "C12": "dsim.engines.containers",
    "C13": "dsim.engines.containers",
    "C14": "dsim.engines.containers",
}

CHUNK = 100
DUP_MOD = 50  # every 50th run is re-executed elsewhere and its digest compared
MAX_REPLAYS = 6  # distinct failure signatures minimised and reported per check
WALL_CAP = {"quick": 900, "thorough": 6 * 3600}

_W = {}


def load_engine(prop):
    return importlib.import_module(ENGINES[prop])


def _init_worker(prop, tier, seed):
    kernel.die_with_parent()
    eng = load_engine(prop)
    eng.preload(prop)
    _W.update(engine=eng, prop=prop, tier=tier, seed=seed, findings=Findings())


def _shape_hash(s):
    return hashlib.sha256(s.encode("utf-8")).hexdigest()[:12]


def work_chunk(start, end, n_samples):
    eng, prop, tier, seed, findings = _W["engine"], _W["prop"], _W["tier"], _W["seed"], _W["findings"]
    agg = {
        "runs": 0,
        "ops": 0,
        "faults": collections.Counter(),
        "probes": collections.Counter(),
        "clauses": collections.Counter(),
        "sim": collections.Counter(),
        "shapes": set(),
        "states": set(),
        "orders": set(),
        "known": collections.Counter(),
        "failing": [],  # (index, clause, sig, detail, features, known_id)
        "first_program": {},  # sig -> (index, program)
        "harness_errors": [],
        "digests": {},
        "samples": [],
        "nontrivial": 0,
    }
    for i in range(start, end):
        want = i < n_samples
        res = forked(kernel.child_run, (eng, prop, tier, seed, i, want), soft=kernel.SOFT_STALL_S)
        if "harness_error" in res:
            agg["harness_errors"].append((i, res["harness_error"]))
            continue
        if any(f.get("features", {}).get("wall") for f in res.get("failures", [])):
            agg["aborted"] = True  # something spins: do not spend the wall-clock backstop on every remaining run
        agg["runs"] += 1
        agg["ops"] += res.get("ops", 0)
        agg["faults"].update(res.get("faults", {}))
        agg["probes"].update(res.get("probes", {}))
        agg["clauses"].update(res.get("clauses", {}))
        agg["sim"].update(res.get("sim", {}))
        if res.get("nontrivial"):
            agg["nontrivial"] += 1
            agg["shapes"].add(_shape_hash(res.get("shape", "")))
        agg["states"].update(res.get("states", []))
        agg["orders"].update(res.get("orders", []))
        if i % DUP_MOD == 7:
            agg["digests"][i] = res["digest"]
        if want and "program" in res:
            agg["samples"].append({"run": i, "run_seed": res["run_seed"], "program": res["program"]})
        for f in res.get("failures", []):
            kid = findings.match(prop, f)
            sig = feature_sig(f)
            if kid is not None:
                agg["known"][kid] += 1
            agg["failing"].append((i, f["clause"], sig, f.get("detail", ""), f.get("features", {}), kid))
            if kid is None and sig not in agg["first_program"]:
                agg["first_program"][sig] = (i, res["program"], res["run_seed"])
        if agg.get("aborted"):
            break
    for k in ("shapes", "states", "orders"):
        agg[k] = sorted(agg[k])
    return agg


def verify_digests(indices):
    eng, prop, tier, seed = _W["engine"], _W["prop"], _W["tier"], _W["seed"]
    out = {}
    for i in indices:
        res = forked(kernel.child_run, (eng, prop, tier, seed, i, False), soft=kernel.SOFT_STALL_S)
        out[i] = res.get("digest", "harness_error:" + res.get("harness_error", "?")[-200:])
    return out


def minimise_task(program, clause, sig):
    eng, prop = _W["engine"], _W["prop"]
    # confirm first
    res = forked(kernel.child_replay, (eng, prop, program), soft=kernel.SOFT_STALL_S)
    if not kernel._same_failure(res, clause, sig):
        return {"reproduced": False, "result": res}
    # a failure found by the wall-clock backstop costs SOFT_STALL_S per failing candidate: shrink only a little
    small, tests = kernel.minimise(eng, prop, program, clause, sig, budget=8 if '"wall": true' in sig else 1500)
    res = forked(kernel.child_replay, (eng, prop, small), soft=kernel.SOFT_STALL_S)
    fail = [f for f in res.get("failures", []) if f["clause"] == clause and feature_sig(f) == sig][0]
    return {"reproduced": True, "program": small, "tests": tests, "failure": fail}


def extra_leg_task(name):
    eng, prop, tier, seed = _W["engine"], _W["prop"], _W["tier"], _W["seed"]
    return forked(eng.run_leg, (prop, tier, seed, name), alarm=3600)


# ---------------------------------------------------------------------------


def run_check(prop, tier, seed, workers=None, runs_override=None, quiet=False):
    t0 = time.time()
    eng = load_engine(prop)
    desc = eng.describe(prop)
    total_runs = runs_override or eng.tiers(prop)[tier]
    stages = 4 if tier == "quick" else 10  # exploration stops at the first stage that finds an unlisted violation
    workers = workers or int(os.environ.get("VERIF_WORKERS", "0")) or os.cpu_count() or 4
    findings = Findings()
    print("VERIF_SEED=%d property=%s tier=%s runs=%d workers=%d repo=%s" % (seed, prop, tier, total_runs, workers, kernel.REPO))
    sys.stdout.flush()

    if hasattr(eng, "prepare_main"):
        eng.prepare_main(prop, workers)  # e.g. the cold-interpreter table; workers inherit it by fork
    ctx = multiprocessing.get_context("fork")
    pool = cf.ProcessPoolExecutor(max_workers=workers, mp_context=ctx, initializer=_init_worker, initargs=(prop, tier, seed))
    deadline = t0 + WALL_CAP[tier]

    tot = {
        "runs": 0,
        "ops": 0,
        "nontrivial": 0,
        "faults": collections.Counter(),
        "probes": collections.Counter(),
        "clauses": collections.Counter(),
        "sim": collections.Counter(),
        "known": collections.Counter(),
    }
    shapes, states, orders = set(), set(), set()
    failing = []
    first_program = {}
    harness_errors = []
    digests = {}
    samples = []
    leg_results = []
    n_samples = 3
    stall_abort = False

    def harness_fail(msg):
        print("HARNESS-ERROR: " + msg)
        sys.stdout.flush()
        try:
            pool.shutdown(wait=False, cancel_futures=True)
        except Exception:
            pass
        _kill_children()
        return 2

    try:
        # deterministic enumeration legs (e.g. VLQ sweeps), labelled as such
        leg_futs = {pool.submit(extra_leg_task, name): name for name in eng.legs(prop, tier)}
        stage_size = -(-total_runs // stages)
        done_runs = 0
        for st in range(stages):
            lo, hi = st * stage_size, min(total_runs, (st + 1) * stage_size)
            if lo >= hi:
                break
            futs = []
            for s in range(lo, hi, CHUNK):
                futs.append(pool.submit(work_chunk, s, min(hi, s + CHUNK), n_samples))
            dup_idx = [i for i in range(lo, hi) if i % DUP_MOD == 7]
            vfuts = [pool.submit(verify_digests, dup_idx[k : k + 20]) for k in range(0, len(dup_idx), 20)]
            for fu in futs:
                if fu.cancelled():
                    continue
                agg = fu.result(timeout=max(1, deadline - time.time()))
                for k in ("runs", "ops", "nontrivial"):
                    tot[k] += agg[k]
                for k in ("faults", "probes", "clauses", "sim", "known"):
                    tot[k].update(agg[k])
                shapes.update(agg["shapes"])
                states.update(agg["states"])
                orders.update(agg["orders"])
                failing.extend(agg["failing"])
                for sig, v in agg["first_program"].items():
                    if sig not in first_program or v[0] < first_program[sig][0]:
                        first_program[sig] = v
                harness_errors.extend(agg["harness_errors"])
                digests.update(agg["digests"])
                samples.extend(agg["samples"])
                if agg.get("aborted") and not stall_abort:
                    stall_abort = True
                    for f2 in futs:
                        f2.cancel()  # queued chunks would only spend the backstop again
                if harness_errors:
                    for i, e in harness_errors[:3]:
                        print("harness error in run %s:\n%s" % (i, e))
                    return harness_fail("%d runs failed inside the harness" % len(harness_errors))
            if stall_abort:
                for fu in vfuts:
                    fu.cancel()
                break
            ver = {}
            for fu in vfuts:
                ver.update(fu.result(timeout=max(1, deadline - time.time())))
            for i, d in ver.items():
                if digests.get(i) != d:
                    return harness_fail("non-determinism: run %d digest %s vs %s" % (i, digests.get(i), d))
            done_runs = hi
            if harness_errors:
                break
            if first_program:
                break  # unlisted violations: stop exploring, go and minimise
            if not quiet and stages > 1:
                print("stage %d/%d done: runs=%d elapsed=%.0fs" % (st + 1, stages, tot["runs"], time.time() - t0))
                sys.stdout.flush()
        for fu, name in leg_futs.items():
            r = fu.result(timeout=max(1, deadline - time.time()))
            if "harness_error" in r:
                harness_errors.append((name, r["harness_error"]))
            else:
                leg_results.append(r)
                for f in r.get("failures", []):
                    kid = findings.match(prop, f)
                    sig = feature_sig(f)
                    if kid is not None:
                        tot["known"][kid] += 1
                    failing.append((-1, f["clause"], sig, f.get("detail", ""), f.get("features", {}), kid))
                    if kid is None and sig not in first_program:
                        first_program[sig] = (-1, f["program"], 0)
        if harness_errors:
            for i, e in harness_errors[:3]:
                print("harness error in run %s:\n%s" % (i, e))
            return harness_fail("%d runs failed inside the harness" % len(harness_errors))

        # ---- minimise one representative per unlisted signature (lowest run index first)
        todo = sorted(first_program.items(), key=lambda kv: (kv[1][0], kv[0]))[:MAX_REPLAYS]
        mfuts = []
        for sig, (idx, program, rs) in todo:
            clause = json.loads(sig)[0]
            mfuts.append((sig, idx, program, rs, clause, pool.submit(minimise_task, program, clause, sig)))
        violations = []
        for sig, idx, program, rs, clause, fu in mfuts:
            r = fu.result(timeout=max(1, deadline - time.time()))
            if not r["reproduced"]:
                return harness_fail("failure of run %d (%s) did not reproduce in a fresh fork" % (idx, clause))
            path = _write_replay(prop, seed, idx, rs, clause, program, r)
            violations.append((clause, path, r))
    except cf.TimeoutError:
        return harness_fail("wall cap of %ds exceeded" % WALL_CAP[tier])
    except cf.process.BrokenProcessPool as e:
        return harness_fail("worker pool broke: %r" % (e,))
    finally:
        pool.shutdown(wait=False, cancel_futures=True)

    # ---- fresh-interpreter replay of every reported violation
    exit_code = 0
    reported = []
    for clause, path, r in violations:
        ok, out = fresh_replay(path)
        if not ok:
            print(out)
            print("HARNESS-ERROR: replay %s did not reproduce in a fresh interpreter" % path)
            return 2
        reported.append((clause, path, r))

    wall = time.time() - t0
    unlisted = [f for f in failing if f[5] is None]
    ev = _evidence(prop, tier, seed, eng, desc, tot, shapes, states, orders, samples, failing, unlisted, reported, leg_results, wall, workers, len(digests), findings)
    evdir = os.environ.get("VERIF_EVIDENCE_DIR") or os.path.join(kernel.VERIF, "evidence")
    os.makedirs(evdir, exist_ok=True)
    with open(os.path.join(evdir, prop + ".json"), "w") as f:
        json.dump(ev, f, indent=1, sort_keys=True)
        f.write("\n")

    for e in findings.open_for(prop):
        print("KNOWN-FINDING: property=%s %s [%s; clause %s; seen in %d runs of this batch]" % (prop, e["what"], e["id"], e["clause"], tot["known"].get(e["id"], 0)))
    for clause, path, r in reported:
        print("violated clause %s: %s" % (clause, r["failure"].get("detail", "")[:600]))
        print("VIOLATION property=%s replay=%s" % (prop, path))
        exit_code = 1
    if unlisted and not reported:
        print("HARNESS-ERROR: unlisted failures without a replay")
        return 2
    print(
        "%s %s: runs=%d ops=%d distinct_shapes=%d states=%d known=%d unlisted_failing_runs=%d wall=%.1fs -> exit %d"
        % (prop, tier, tot["runs"], tot["ops"], len(shapes), len(states), sum(tot["known"].values()), len(set(f[0] for f in unlisted)), wall, exit_code)
    )
    return exit_code


def _kill_children():
    try:
        import signal

        for p in multiprocessing.active_children():
            p.kill()
        # executor workers are not in active_children(); kill our process group's descendants
        me = os.getpid()
        out = subprocess.run(["ps", "-o", "pid=", "--ppid", str(me)], capture_output=True, text=True).stdout.split()
        for pid in out:
            try:
                os.kill(int(pid), signal.SIGKILL)
            except Exception:
                pass
    except Exception:
        pass


def _write_replay(prop, seed, idx, rs, clause, original, r):
    d = os.path.join(os.environ.get("VERIF_REPLAY_DIR") or os.path.join(kernel.VERIF, "replays"), prop)
    os.makedirs(d, exist_ok=True)
    sig8 = hashlib.sha256(feature_sig(r["failure"]).encode("utf-8")).hexdigest()[:8]
    name = "%d-%s-%s-%s.json" % (seed, ("run%d" % idx) if idx >= 0 else "leg", clause.replace(".", "_"), sig8)
    path = os.path.join(d, name)
    doc = {
        "property": prop,
        "verif_seed": seed,
        "run_index": idx,
        "run_seed": rs,
        "clause": clause,
        "features": r["failure"].get("features", {}),
        "detail": r["failure"].get("detail", ""),
        "original_ops": len(original.get("ops", [])),
        "minimised_ops": len(r["program"].get("ops", [])),
        "minimiser_tests": r["tests"],
        "program": r["program"],
    }
    with open(path, "w") as f:
        json.dump(doc, f, indent=1)  # key order of the program is kept as generated
        f.write("\n")
    return path


def fresh_replay(path):
    env = dict(os.environ)
    env["PYTHONHASHSEED"] = "12345"
    p = subprocess.run([sys.executable, os.path.join(kernel.VERIF, "check.py"), "replay", path], capture_output=True, text=True, env=env, timeout=600)
    ok = p.returncode == 1 and "REPLAY reproduced=True same_detail=True" in p.stdout
    return ok, p.stdout + p.stderr


def replay_file(path):
    with open(path) as f:
        doc = json.load(f)
    prop = doc["property"]
    eng = load_engine(prop)
    if hasattr(eng, "prepare_main"):
        eng.prepare_main(prop, min(8, os.cpu_count() or 1))
    eng.preload(prop)
    res = forked(kernel.child_replay, (eng, prop, doc["program"]), soft=kernel.SOFT_STALL_S)
    if "harness_error" in res:
        print(res["harness_error"])
        print("HARNESS-ERROR: replay crashed inside the harness")
        return 2
    same = [f for f in res.get("failures", []) if f["clause"] == doc["clause"]]
    reproduced = bool(same)
    same_detail = any(f.get("detail", "") == doc.get("detail", "") for f in same)
    print("REPLAY reproduced=%s same_detail=%s clause=%s digest=%s" % (reproduced, same_detail, doc["clause"], res.get("digest")))
    for f in res.get("failures", []):
        print("  failed %s: %s" % (f["clause"], f.get("detail", "")[:1000]))
    if reproduced:
        print("VIOLATION property=%s replay=%s" % (prop, os.path.abspath(path)))
        return 1
    return 0


def _merge_legs(legs):
    """slices 'name:k' of one enumeration are reported as one record"""
    out, sl = [], {}
    for l in legs:
        d = {k: v for k, v in l.items() if k != "failures"}
        name = str(d.get("leg", ""))
        if ":" in name:
            base = name.split(":")[0]
            m = sl.setdefault(base, {"leg": base, "kind": d.get("kind"), "slices": 0, "cases": 0, "exhaustive": True})
            m["slices"] += 1
            m["cases"] += int(d.get("cases", 0))
            m["exhaustive"] = m["exhaustive"] and bool(d.get("exhaustive"))
            m["note"] = "all slices together cover 0..2^28-1" if base.startswith("vlq") else d.get("note", "")
        else:
            out.append(d)
    return out + [sl[k] for k in sorted(sl)]


def _evidence(prop, tier, seed, eng, desc, tot, shapes, states, orders, samples, failing, unlisted, reported, legs, wall, workers, ndup, findings):
    runs = tot["runs"]
    fault_kinds = {k: int(tot["faults"].get(k, 0)) for k in desc.get("fault_kinds", [])}
    for k, v in tot["faults"].items():
        fault_kinds[k] = int(v)
    probes = {k: int(tot["probes"].get(k, 0)) for k in desc.get("probes", [])}
    for k, v in tot["probes"].items():
        probes[k] = int(v)
    clause_counts = {k: int(tot["clauses"].get(k, 0)) for k in desc.get("clauses", [])}
    for k, v in tot["clauses"].items():
        clause_counts[k] = int(v)
    cov = {
        "evaluations": int(runs),
        "distinct_nontrivial": len(shapes),
        "rule": desc["rule"],
        "samples": [s for s in sorted(samples, key=lambda s: s["run"])][:3],
        "states": len(states),
        "distinct_state_measure": desc.get("state_measure", ""),
        "distinct_schedules": len(orders),
        "nontrivial_runs": int(tot["nontrivial"]),
        "operations_executed": int(tot["ops"]),
        "runs_per_hour": int(runs / wall * 3600) if wall > 0 else 0,
        "ops_per_hour": int(tot["ops"] / wall * 3600) if wall > 0 else 0,
        "simulated": {k: (float(v) if isinstance(v, float) else int(v)) for k, v in sorted(tot["sim"].items())},
        "fault_kinds_fired": fault_kinds,
        "reach_probes": probes,
        "probes_stuck_at_zero": sorted(k for k, v in probes.items() if v == 0),
        "clause_evaluations": clause_counts,
        "components_real": desc.get("components_real", []),
        "components_stub": desc.get("components_stub", []),
        "determinism_sample": {"runs_re_executed_in_another_process": ndup, "digest_mismatches": 0},
        "known_findings_seen": {k: int(v) for k, v in sorted(tot["known"].items())},
        "failing_runs_listed_as_known": len(set(f[0] for f in failing if f[5] is not None)),
        "failing_runs_unlisted": len(set(f[0] for f in unlisted)),
        "replays": [p for _, p, _ in reported],
        "enumeration_legs": _merge_legs(legs),
        "workers": workers,
        "exhaustive": False,
    }
    return {
        "property_id": prop,
        "tier": tier,
        "seed": int(seed),
        "level": "exploration",
        "coverage": cov,
        "assumptions": desc.get("assumptions", []),
        "wall_s": round(wall, 2),
        "violations": len(reported),
    }


# ---------------------------------------------------------------------------
# reach: which lines of the code under test a sample of runs actually executes


def _executable_lines(path):
    """line numbers inside function bodies (module and class bodies run at import
    only; the def line itself is not counted)"""
    import types

    try:
        with open(path) as f:
            code = compile(f.read(), path, "exec")
    except Exception:
        return set()
    out = set()
    stack = [(code, False)]
    while stack:
        c, is_fn = stack.pop()
        if is_fn:
            for _, _, ln in c.co_lines():
                if ln is not None and ln != c.co_firstlineno:
                    out.add(ln)
        for k in c.co_consts:
            if isinstance(k, types.CodeType):
                # a class body is a code object too, but it is not a function: its name is the class name and
                # it is run once at import; treat code objects whose flags lack CO_OPTIMIZED as non-functions
                stack.append((k, bool(k.co_flags & 0x1)))
    return out


def _reach_child(prop, tier, seed, n):
    import random
    import sys as _sys

    eng = load_engine(prop)
    eng.preload(prop)
    root = os.path.join(kernel.REPO, "mingus") + os.sep
    hit = {}

    def tracer(frame, event, arg):
        fn = frame.f_code.co_filename
        if not fn.startswith(root):
            return None
        if event == "line":
            hit.setdefault(fn, set()).add(frame.f_lineno)
        return tracer

    _sys.settrace(tracer)
    try:
        for i in range(n):
            rs = kernel.run_seed(seed, eng.ENGINE_ID, int(prop[1:]), i)
            program = eng.generate(random.Random(rs), prop, tier)
            try:
                eng.execute(prop, program)
            except BaseException:
                pass
    finally:
        _sys.settrace(None)
    out = {}
    for fn, lines in hit.items():
        ex = _executable_lines(fn)
        rel = os.path.relpath(fn, kernel.REPO)
        out[rel] = {"lines_executed": len(lines & ex) if ex else len(lines), "executable_lines": len(ex)}
    return out


def reach(prop, n=300, seed=0):
    """Runs a sample of runs in ONE child under a line tracer (no per-run isolation:
    this is a reach measurement, never a verdict)."""
    eng = load_engine(prop)
    if hasattr(eng, "prepare_main"):
        eng.prepare_main(prop, 8)
    r = forked(_reach_child, (prop, "quick", seed, n), alarm=1800)
    if "harness_error" in r:
        print(r["harness_error"])
        return 2
    print("reach of %d sampled runs of %s into the code under test (lines executed inside calls / executable lines):" % (n, prop))
    for fn in sorted(r):
        v = r[fn]
        print("  %-44s %4d / %4d" % (fn, v["lines_executed"], v["executable_lines"]))
    d = os.path.join(kernel.VERIF, "reach")
    os.makedirs(d, exist_ok=True)
    path = os.path.join(d, "%s.json" % prop)
    with open(path, "w") as f:
        json.dump({"property_id": prop, "sampled_runs": n, "seed": seed, "files": r, "note": "line reach of a sample of runs executed in one process under sys.settrace; a reach measurement, not a verdict"}, f, indent=1, sort_keys=True)
    return 0
