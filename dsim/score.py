# -*- coding: utf-8 -*-
"""Reference "score" model.  Shares no code with mingus.

* symbolic note values -> exact Fraction lengths (whole note = 1)
* note spelling -> integer pitch
* generators that fill a span exactly from the symbolic vocabulary
* seconds / tick timelines
"""
from __future__ import annotations

from fractions import Fraction

NATURAL = {"C": 0, "D": 2, "E": 4, "F": 5, "G": 7, "A": 9, "B": 11}
LETTERS = "CDEFGAB"


def pitch_of(name, octave):
    p = 12 * octave + NATURAL[name[0]]
    for c in name[1:]:
        p += 1 if c == "#" else -1
    return p


def sym_length(sym):
    """sym = [base, dots, tuplet_num, tuplet_den]; base may be a float like
    0.5 (breve) or 0.25 (longa) given as [num, den] pair or number."""
    base, dots, tn, td = sym
    if isinstance(base, list):
        b = Fraction(base[0], base[1])
    else:
        b = Fraction(base)
    return (1 / b) * (2 - Fraction(1, 2 ** dots)) * Fraction(td, tn)


def sym_value(sym):
    """The number a user hands to the API: 1/length, as an int when integral,
    otherwise the correctly rounded double of the exact rational."""
    v = 1 / sym_length(sym)
    if v.denominator == 1:
        return int(v)
    return float(v)


def ticks_of(length, tpw=288):
    """round(288/value) the way the statement says it: nearest integer of the
    exact rational 288*length, ties to even (Python round on an exact x.5
    double does the same; ties do not occur in the generated vocabulary)."""
    x = length * tpw
    return int(round(x))


def is_whole_ticks(length, tpw=288):
    return (length * tpw).denominator == 1


# ---------------------------------------------------------------------------
# exact fills


def split_span(rng, span, depth, allow):
    """Recursively split ``span`` (a Fraction that is 1/m for integer m, or a
    dotted multiple) into symbolic values that sum to it exactly.

    allow: set of {"dot", "ddot", "t3", "t5", "t7"}; leaves have base <= 128.
    Returns a list of syms."""
    # span must be of the form 1/m with m a power of two (or m <= 1)
    m = 1 / span
    assert m.denominator == 1 or m.numerator == 1, span
    base = m  # Fraction
    choices = ["leaf"]
    if depth > 0 and base * 2 <= 128:
        choices += ["half", "half"]
        if "dot" in allow and base * 4 <= 128:
            choices.append("dot")
        if "ddot" in allow and base * 8 <= 128:
            choices.append("ddot")
        if "dot" in allow and base * 4 <= 128:
            choices.append("dotpair")
        if "ddot" in allow and base * 16 <= 128:
            choices.append("dddot")
        if "t3" in allow and base * 2 <= 128:
            choices.append("t3")
        if "t5" in allow and base * 4 <= 128:
            choices.append("t5")
        if "t7" in allow and base * 4 <= 128:
            choices.append("t7")
    c = rng.choice(choices)
    b = _b(base)
    if c == "leaf":
        return [[b, 0, 1, 1]]
    if c == "half":
        return split_span(rng, span / 2, depth - 1, allow) + split_span(rng, span / 2, depth - 1, allow)
    if c == "dot":
        # dotted (3/4 span) + quarter of span, either order
        parts = [[_b(base * 2), 1, 1, 1], [_b(base * 4), 0, 1, 1]]
        if rng.random() < 0.5:
            parts.reverse()
        return parts
    if c == "ddot":
        parts = [[_b(base * 2), 2, 1, 1], [_b(base * 8), 0, 1, 1]]
        if rng.random() < 0.5:
            parts.reverse()
        return parts
    if c == "dotpair":
        # two dotted values and one plain value of the same base: 3/(2b) + 3/(2b) + 1/b = 4/b
        parts = [[_b(base * 4), 1, 1, 1], [_b(base * 4), 1, 1, 1], [_b(base * 4), 0, 1, 1]]
        rng.shuffle(parts)
        return parts
    if c == "dddot":
        # triple-dotted value and its complement: 15/(8b) + 1/(8b) = 2/b
        parts = [[_b(base * 2), 3, 1, 1], [_b(base * 16), 0, 1, 1]]
        if rng.random() < 0.5:
            parts.reverse()
        return parts
    if c == "t3":
        return [[_b(base * 2), 0, 3, 2] for _ in range(3)]
    if c == "t5":
        return [[_b(base * 4), 0, 5, 4] for _ in range(5)]
    if c == "t7":
        return [[_b(base * 4), 0, 7, 4] for _ in range(7)]
    raise AssertionError(c)


def _b(fr):
    fr = Fraction(fr)
    if fr.denominator == 1:
        return int(fr)
    return [fr.numerator, fr.denominator]


def reduce_meter(count, unit):
    """128/4096 is filled like 1/32: no value is shorter than a 128th."""
    if unit > 128:
        while count % 2 == 0 and unit > 1:
            count //= 2
            unit //= 2
    return count, unit


def fill_bar(rng, count, unit, depth, allow, max_entries=16):
    """Fill a bar of meter (count, unit) exactly.  Beats may be merged in
    pairs/fours when that yields a power-of-two span."""
    count, unit = reduce_meter(count, unit)
    for _ in range(50):
        out = []
        i = 0
        while i < count:
            # merge 4, 2 or 1 beats
            opts = [1]
            if count - i >= 2 and unit >= 2:
                opts.append(2)
            if count - i >= 4 and unit >= 4:
                opts.append(4)
            if count - i >= 3 and unit >= 2 and "dot" in allow:
                opts.append(3)
            k = rng.choice(opts)
            if k == 3:
                # three beats as one dotted value: base = unit/2, dotted
                out.append([_b(Fraction(unit, 2)), 1, 1, 1])
            else:
                out += split_span(rng, Fraction(k, unit), depth, allow)
            i += k
        if len(out) <= max_entries:
            return out
        depth = max(0, depth - 1)
    return [[unit, 0, 1, 1] for _ in range(count)]


def total_length(syms):
    t = Fraction(0)
    for s in syms:
        t += sym_length(s)
    return t


# ---------------------------------------------------------------------------
# seconds timeline with tempo changes


class TempoMap(object):
    """Tempo changes at musical instants (whole-note units)."""

    def __init__(self, bpm):
        self.changes = [(Fraction(0), Fraction(bpm))]

    def add(self, at, bpm):
        self.changes.append((Fraction(at), Fraction(bpm)))
        self.changes.sort(key=lambda c: c[0])

    def seconds(self, t):
        """Seconds elapsed from musical time 0 to t."""
        t = Fraction(t)
        s = Fraction(0)
        ch = self.changes
        # drop earlier changes at the same instant (the last one wins)
        eff = []
        for at, bpm in ch:
            if eff and eff[-1][0] == at:
                eff[-1] = (at, bpm)
            else:
                eff.append((at, bpm))
        for i, (at, bpm) in enumerate(eff):
            if at >= t:
                break
            end = eff[i + 1][0] if i + 1 < len(eff) else t
            end = min(end, t)
            s += (end - at) * 240 / bpm
        return s

    def final(self, upto=None):
        last = self.changes[0][1]
        for at, bpm in self.changes:
            if upto is None or at < upto:
                last = bpm
        return last
