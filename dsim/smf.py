# -*- coding: utf-8 -*-
"""Independent Standard MIDI File decoder, written from the SMF 1.0
specification.  Shares no code with mingus.  Strict: anything the
specification does not allow raises SMFError with the byte offset.
"""
from __future__ import annotations


class SMFError(Exception):
    def __init__(self, msg, offset=None):
        Exception.__init__(self, "%s (byte %s)" % (msg, offset) if offset is not None else msg)
        self.offset = offset


def vlq_encode(n):
    """The standard encoding: 7 bits per byte, most significant group first,
    bit 7 set on all but the last byte; minimal length."""
    if n < 0 or n >= (1 << 28):
        raise ValueError(n)
    out = [n & 0x7F]
    n >>= 7
    while n:
        out.append((n & 0x7F) | 0x80)
        n >>= 7
    return bytes(reversed(out))


def read_vlq(data, pos, end):
    val = 0
    for i in range(4):
        if pos >= end:
            raise SMFError("variable-length quantity runs past the end of its chunk", pos)
        b = data[pos]
        pos += 1
        val = (val << 7) | (b & 0x7F)
        if not b & 0x80:
            return val, pos
    raise SMFError("variable-length quantity longer than 4 bytes", pos)


def parse(data):
    """Returns dict(format, ntracks, division, tracks=[[event...]]).
    event = dict(tick, delta, kind, ...)"""
    data = bytes(data)
    if len(data) < 14:
        raise SMFError("file shorter than a header chunk (%d bytes)" % len(data), 0)
    if data[0:4] != b"MThd":
        raise SMFError("missing MThd tag", 0)
    hlen = int.from_bytes(data[4:8], "big")
    if hlen != 6:
        raise SMFError("header length %d, expected 6" % hlen, 4)
    fmt = int.from_bytes(data[8:10], "big")
    ntracks = int.from_bytes(data[10:12], "big")
    division = int.from_bytes(data[12:14], "big")
    pos = 14
    tracks = []
    while pos < len(data):
        if pos + 8 > len(data):
            raise SMFError("trailing bytes that are not a chunk", pos)
        tag = data[pos : pos + 4]
        clen = int.from_bytes(data[pos + 4 : pos + 8], "big")
        if tag != b"MTrk":
            raise SMFError("chunk tag %r, expected MTrk" % tag, pos)
        body = pos + 8
        end = body + clen
        if end > len(data):
            raise SMFError("track chunk declares %d bytes but only %d follow" % (clen, len(data) - body), pos + 4)
        tracks.append(_parse_track(data, body, end))
        pos = end
    if ntracks != len(tracks):
        raise SMFError("header declares %d tracks, %d track chunks follow" % (ntracks, len(tracks)), 10)
    return {"format": fmt, "ntracks": ntracks, "division": division, "tracks": tracks}


def _parse_track(data, pos, end):
    events = []
    tick = 0
    status = None
    saw_eot = False
    while pos < end:
        if saw_eot:
            raise SMFError("events after end-of-track", pos)
        delta, pos = read_vlq(data, pos, end)
        tick += delta
        if pos >= end:
            raise SMFError("delta time without an event", pos)
        b = data[pos]
        if b == 0xFF:
            if pos + 2 > end:
                raise SMFError("truncated meta event", pos)
            mtype = data[pos + 1]
            if mtype > 0x7F:
                raise SMFError("meta type %#x out of range" % mtype, pos + 1)
            ln, p2 = read_vlq(data, pos + 2, end)
            if p2 + ln > end:
                raise SMFError("meta event data runs past the end of its chunk", pos)
            body = data[p2 : p2 + ln]
            pos = p2 + ln
            status = None
            ev = {"tick": tick, "delta": delta, "kind": "meta", "type": mtype, "data": body}
            if mtype == 0x2F:
                if ln != 0:
                    raise SMFError("end-of-track with length %d" % ln, pos)
                saw_eot = True
            elif mtype == 0x51 and ln != 3:
                raise SMFError("set-tempo with length %d" % ln, pos)
            elif mtype == 0x58 and ln != 4:
                raise SMFError("time-signature with length %d" % ln, pos)
            elif mtype == 0x59 and ln != 2:
                raise SMFError("key-signature with length %d" % ln, pos)
            events.append(ev)
            continue
        if b in (0xF0, 0xF7):
            ln, p2 = read_vlq(data, pos + 1, end)
            if p2 + ln > end:
                raise SMFError("sysex runs past the end of its chunk", pos)
            events.append({"tick": tick, "delta": delta, "kind": "sysex", "data": data[p2 : p2 + ln]})
            pos = p2 + ln
            status = None
            continue
        if b >= 0xF0:
            raise SMFError("system message %#x is not allowed in a file" % b, pos)
        if b & 0x80:
            status = b
            pos += 1
        elif status is None:
            raise SMFError("data byte %#x without a running status" % b, pos)
        hi = status & 0xF0
        ch = status & 0x0F
        need = 1 if hi in (0xC0, 0xD0) else 2
        if pos + need > end:
            raise SMFError("truncated channel event", pos)
        args = data[pos : pos + need]
        for a in args:
            if a & 0x80:
                raise SMFError("data byte %#x has bit 7 set" % a, pos)
        pos += need
        kind = {0x80: "note_off", 0x90: "note_on", 0xA0: "poly_pressure", 0xB0: "cc", 0xC0: "program", 0xD0: "pressure", 0xE0: "pitch_bend"}[hi]
        events.append({"tick": tick, "delta": delta, "kind": kind, "ch": ch, "a": args[0], "b": args[1] if need == 2 else None})
    if not saw_eot:
        raise SMFError("track does not end in end-of-track", end)
    return events
