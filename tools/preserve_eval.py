#!/venv/bin/python
"""Runs every registered quick check against property-preserving variations of
/repo (patches under <dir>/<k>/patch.diff).  Every check must exit 0: an alarm
here is a false alarm of the machinery.
usage: preserve_eval.py <dir> [k ...]"""
import json, os, shutil, subprocess, sys, tempfile, time

VERIF = os.path.dirname(os.path.dirname(os.path.abspath(__file__)))
PY = "/venv/bin/python"
PROPS = (os.environ.get("PRESERVE_PROPS") or "C11 C12 C13 C14 C15 C16 C17 C18").split()  # PRESERVE_PROPS="C11" limits the run to some checks


def main():
    base = sys.argv[1]
    ks = sys.argv[2:] or sorted((d for d in os.listdir(base) if os.path.exists(os.path.join(base, d, "patch.diff"))), key=lambda x: (len(x), x))
    out = {}
    for k in ks:
        tmp = tempfile.mkdtemp(prefix="mingus-preserve-")
        try:
            subprocess.check_call(["rsync", "-a", "--exclude", ".git", "--exclude", "__pycache__", "/repo/", tmp + "/"])
            p = subprocess.run(["patch", "-p1", "-s", "-i", os.path.join(base, k, "patch.diff")], cwd=tmp, capture_output=True, text=True)
            if p.returncode != 0:
                print(k, "patch-failed", (p.stdout + p.stderr)[-200:])
                out[k] = "patch-failed"
                continue
            env = dict(os.environ, VERIF_REPO=tmp, VERIF_REPLAY_DIR=os.path.join(tmp, "_replays"), VERIF_EVIDENCE_DIR=os.path.join(tmp, "_evidence"))
            res = {}
            for prop in PROPS:
                c = subprocess.run([PY, os.path.join(VERIF, "check.py"), prop, "--tier", "quick"], capture_output=True, text=True, env=env, timeout=3600)
                res[prop] = c.returncode
                if c.returncode != 0:
                    vio = [l for l in c.stdout.splitlines() if l.startswith("violated clause") or "HARNESS" in l]
                    print("   %s/%s exit %d: %s" % (k, prop, c.returncode, " | ".join(v[:260] for v in vio[:3])))
                    # keep the replay for inspection
                    for l in c.stdout.splitlines():
                        if l.startswith("VIOLATION property="):
                            rp = l.split("replay=")[1].strip()
                            if os.path.exists(rp):
                                os.makedirs("/tmp/preserve_replays", exist_ok=True)
                                shutil.copy(rp, "/tmp/preserve_replays/%s-%s" % (k, os.path.basename(rp)))
            out[k] = res
            print(k, "quiet" if all(v == 0 for v in res.values()) else "ALARM", res)
            sys.stdout.flush()
        finally:
            shutil.rmtree(tmp, ignore_errors=True)
    json.dump(out, open("/tmp/preserve_results.json", "w"), indent=1)


if __name__ == "__main__":
    main()
