#!/venv/bin/python
"""Confirm and evaluate seeded changes produced by independent sub-agents.

usage: seeded_eval.py confirm <Cxx> <k> [<k> ...]   (from /tmp/seed-Cxx/k, worktree /tmp/wt-Cxx)
       seeded_eval.py check [<id> ...]              (run the registered quick check against each kept change)
Nothing here ever commits to /repo; checks run against a scratch copy of /repo
with the patch applied (VERIF_REPO), which is removed afterwards.
"""
import json, os, shutil, subprocess, sys, tempfile, time

VERIF = os.path.dirname(os.path.dirname(os.path.abspath(__file__)))
PY = "/venv/bin/python"


def sh(cmd, cwd=None, env=None, timeout=1800):
    p = subprocess.run(cmd, cwd=cwd, env=env, capture_output=True, text=True, timeout=timeout)
    return p.returncode, p.stdout + p.stderr


def confirm(prop, k, src=None, wt=None):
    src = src or "/tmp/seed-%s/%s" % (prop, k)
    wt = wt or "/tmp/wt-%s" % prop
    sid = "%s-%s" % (prop, k)
    rec = {"id": sid, "property": prop, "source": "independent sub-agent given only the property text and a scratch worktree"}
    sh(["git", "checkout", "--", "."], cwd=wt)
    env = dict(os.environ, PYTHONPATH=wt, PYTHONDONTWRITEBYTECODE="1")
    rc0, out0 = sh(["timeout", "120", PY, os.path.join(src, "demo.py")], cwd=src, env=env)
    rc, out = sh(["git", "apply", os.path.join(src, "patch.diff")], cwd=wt)
    if rc != 0:
        rec["confirmed"] = False
        rec["why"] = "patch does not apply: " + out[-200:]
        return rec
    rct, outt = sh(["timeout", "900", PY, "-m", "pytest", "-q", "-p", "no:cacheprovider", "tests", "--ignore=tests/integration/test_fluidsynth.py"], cwd=wt, env=dict(os.environ, PYTHONDONTWRITEBYTECODE="1"))
    rc1, out1 = sh(["timeout", "120", PY, os.path.join(src, "demo.py")], cwd=src, env=env)
    sh(["git", "checkout", "--", "."], cwd=wt)
    tail = outt.strip().splitlines()[-1] if outt.strip() else ""
    rec.update(tests_with_change=tail, demo_exit_without_change=rc0, demo_exit_with_change=rc1)
    rec["confirmed"] = rc0 == 0 and rc1 != 0 and rct == 0 and "190 passed" in tail
    rec["what_i_ran"] = [
        "PYTHONPATH=<clean worktree> python demo.py  -> exit %d" % rc0,
        "git apply patch.diff; python -m pytest -q tests --ignore=tests/integration/test_fluidsynth.py -> %s" % tail,
        "PYTHONPATH=<patched worktree> python demo.py -> exit %d" % rc1,
    ]
    if rec["confirmed"]:
        dst = os.path.join(VERIF, "seeded", sid)
        os.makedirs(dst, exist_ok=True)
        for f in ("patch.diff", "demo.py", "NOTES.md"):
            if os.path.exists(os.path.join(src, f)):
                shutil.copy(os.path.join(src, f), os.path.join(dst, f))
        notes = open(os.path.join(src, "NOTES.md")).read() if os.path.exists(os.path.join(src, "NOTES.md")) else ""
        rec["needs_to_manifest"] = notes.strip()[:1500]
        json.dump(rec, open(os.path.join(dst, "meta.json"), "w"), indent=1)
    return rec


def check(sid):
    d = os.path.join(VERIF, "seeded", sid)
    meta = json.load(open(os.path.join(d, "meta.json")))
    # "checked_by": the change was seeded against meta["property"], but what it breaks is decided by another
    # property's check (the seeded property holds vacuously, e.g. the object can no longer be built at all)
    prop = meta.get("checked_by", meta["property"])
    tmp = tempfile.mkdtemp(prefix="mingus-seeded-")
    try:
        subprocess.check_call(["rsync", "-a", "--exclude", ".git", "--exclude", "__pycache__", "/repo/", tmp + "/"])
        rc, out = sh(["patch", "-p1", "-s", "-i", os.path.join(d, "patch.diff")], cwd=tmp)
        if rc != 0:
            meta["check"] = {"status": "patch-failed", "detail": out[-300:]}
        else:
            env = dict(os.environ, VERIF_REPO=tmp, VERIF_REPLAY_DIR=os.path.join(tmp, "_replays"), VERIF_EVIDENCE_DIR=os.path.join(tmp, "_evidence"))
            res = {}
            for tier in (["quick"] + (["thorough"] if "--thorough-on-miss" in sys.argv else [])):
                t0 = time.time()
                rc, out = sh([PY, os.path.join(VERIF, "check.py"), prop, "--tier", tier], env=env, timeout=4 * 3600)
                vio = [l for l in out.splitlines() if l.startswith("violated clause")]
                res[tier] = {"exit": rc, "wall_s": round(time.time() - t0, 1), "clauses": sorted(set(l.split()[2].rstrip(":") for l in vio)), "first": vio[0][:300] if vio else ""}
                if rc == 1:
                    # keep the minimised replay next to the seeded change
                    for l in (out.splitlines() if "--no-save" not in sys.argv else []):
                        if l.startswith("VIOLATION property="):
                            rp = l.split("replay=")[1].strip()
                            if os.path.exists(rp):
                                shutil.copy(rp, os.path.join(d, "replay-" + os.path.basename(rp)))
                            break
                    break
                if rc == 2:
                    res[tier]["tail"] = out[-400:]
            meta["check"] = {"status": "caught" if any(r["exit"] == 1 for r in res.values()) else ("harness-error" if any(r["exit"] == 2 for r in res.values()) else "MISSED"), "runs": res,
                             "how": "registered check commands run with VERIF_REPO pointing at a scratch copy of /repo with patch.diff applied (removed afterwards)"}
        if "--no-save" not in sys.argv:
            json.dump(meta, open(os.path.join(d, "meta.json"), "w"), indent=1)
        return meta
    finally:
        shutil.rmtree(tmp, ignore_errors=True)


if __name__ == "__main__":
    if sys.argv[1] == "confirm2":
        # confirm2 <srcdir> <worktree> <prop> <k>
        r = confirm(sys.argv[4], sys.argv[5], src=sys.argv[2], wt=sys.argv[3])
        print(r["id"], "confirmed" if r["confirmed"] else "REJECTED", r.get("tests_with_change"), r.get("demo_exit_without_change"), r.get("demo_exit_with_change"), r.get("why", ""))
    elif sys.argv[1] == "confirm":
        for k in sys.argv[3:]:
            r = confirm(sys.argv[2], k)
            print(r["id"], "confirmed" if r["confirmed"] else "REJECTED", r.get("tests_with_change"), r.get("demo_exit_without_change"), r.get("demo_exit_with_change"), r.get("why", ""))
    else:
        ids = [a for a in sys.argv[2:] if not a.startswith("--")] or sorted(os.listdir(os.path.join(VERIF, "seeded")))
        for sid in ids:
            m = check(sid)
            c = m["check"]
            print("%-8s %-9s %s" % (sid, c["status"], json.dumps(c.get("runs", c.get("detail")))[:400]))
            sys.stdout.flush()
