#!/venv/bin/python
"""Regenerates /verif/mutants/*.patch (sensitivity corpus) from small
(file, old, new) edits against the current /repo tree.  Patches are applied to
scratch copies only (dsim/selftest.py), never to /repo."""
import difflib, json, os, sys

REPO = "/repo"
OUT = os.path.join(os.path.dirname(os.path.dirname(os.path.abspath(__file__))), "mutants")
SEQ = "mingus/midi/sequencer.py"
MT = "mingus/midi/midi_track.py"
MFO = "mingus/midi/midi_file_out.py"
MFI = "mingus/midi/midi_file_in.py"
NC = "mingus/containers/note_container.py"
BAR = "mingus/containers/bar.py"
TRK = "mingus/containers/track.py"
NOTE = "mingus/containers/note.py"
COMP = "mingus/containers/composition.py"
INS = "mingus/containers/instrument.py"

M = [
 # ---------------- C18
 ("C18", "drop_stop_in_play_bar", SEQ, "            self.notify_listeners(self.MSG_SLEEP, {\"s\": ms})\n            self.stop_NoteContainer(nc[2], channel)\n", "            self.notify_listeners(self.MSG_SLEEP, {\"s\": ms})\n"),
 ("C18", "stop_before_sleep", SEQ, "            ms = qn_length * (4.0 / nc[1])\n            self.sleep(ms)\n            self.notify_listeners(self.MSG_SLEEP, {\"s\": ms})\n            self.stop_NoteContainer(nc[2], channel)\n", "            ms = qn_length * (4.0 / nc[1])\n            self.stop_NoteContainer(nc[2], channel)\n            self.sleep(ms)\n            self.notify_listeners(self.MSG_SLEEP, {\"s\": ms})\n"),
 ("C18", "no_qn_recompute", SEQ, "                bpm = nc[2].bpm\n                qn_length = 60.0 / bpm\n", "                bpm = nc[2].bpm\n"),
 ("C18", "half_value", SEQ, "            ms = qn_length * (4.0 / nc[1])\n", "            ms = qn_length * (2.0 / nc[1])\n"),
 ("C18", "omit_notify_stop_int", SEQ, "        self.notify_listeners(self.MSG_STOP_INT, {\"channel\": int(channel), \"note\": int(note) + 12})\n", ""),
 ("C18", "attach_without_membership_test", SEQ, "        if listener not in self.listeners:\n            self.listeners.append(listener)\n", "        self.listeners.append(listener)\n"),
 ("C18", "cc_guard_ge", SEQ, "        if value < 0 or value > 128:\n", "        if value < 0 or value >= 128:\n"),
 ("C18", "pitch_plus_0", SEQ, "        self.play_event(int(note) + 12, int(channel), int(velocity))\n", "        self.play_event(int(note), int(channel), int(velocity))\n"),
 ("C18", "channel_argument_wins", SEQ, "        if hasattr(note, \"velocity\"):\n            velocity = note.velocity\n        if hasattr(note, \"channel\"):\n            channel = note.channel\n        self.play_event(", "        if hasattr(note, \"velocity\"):\n            velocity = note.velocity\n        self.play_event("),
 ("C18", "instrument_zero", SEQ, "                self.set_instrument(channels[x], 1)\n", "                self.set_instrument(channels[x], 0)\n"),
 ("C18", "composition_channels_off_by_one", SEQ, "            channels = [x + 1 for x in range(len(composition.tracks))]\n", "            channels = [x for x in range(len(composition.tracks))]\n"),
 ("C18", "notify_live_iteration", SEQ, "        for c in list(self.listeners):\n", "        for c in self.listeners:\n"),
 ("C18", "play_bars_ignores_tempo", SEQ, "                if hasattr(nc, \"bpm\"):\n                    bpm = nc.bpm\n                    qn_length = 60.0 / bpm\n\n            if len(playing) == 0:", "                if hasattr(nc, \"bpm\"):\n                    bpm = nc.bpm\n\n            if len(playing) == 0:"),
 ("C18", "play_track_forgets_tempo", SEQ, "            res = self.play_Bar(bar, channel, bpm)\n            if res != {}:\n                bpm = res[\"bpm\"]\n            else:\n                return {}\n", "            res = self.play_Bar(bar, channel, bpm)\n            if res == {}:\n                return {}\n"),
 ("C18", "play_bars_restart_sounding", SEQ, "                if n in sounding or x >= len(bars[n]):\n", "                if x >= len(bars[n]):\n"),
 ("C18", "play_bars_sleep_longest", SEQ, "            shortest = min([p[0] for p in playing])\n", "            shortest = max([p[0] for p in playing])\n"),
 ("C18", "detach_removes_all_equal", SEQ, "        if listener in self.listeners:\n            self.listeners.remove(listener)\n", "        if listener in self.listeners:\n            self.listeners = self.listeners[: self.listeners.index(listener)]\n"),
 ("C18", "velocity_default_when_zero", SEQ, "        if hasattr(note, \"velocity\"):\n            velocity = note.velocity\n        if hasattr(note, \"channel\"):\n            channel = note.channel\n        self.play_event(", "        if getattr(note, \"velocity\", None):\n            velocity = note.velocity\n        if hasattr(note, \"channel\"):\n            channel = note.channel\n        self.play_event("),
 # ---------------- C16
 ("C16", "chord_forgets_deltatime0", MT, "            self.play_Note(notecontainer[0])\n            self.set_deltatime(0)\n", "            self.play_Note(notecontainer[0])\n"),
 ("C16", "int_instead_of_round", MT, "            tick = int(round((1.0 / x[1]) * 288))\n", "            tick = int((1.0 / x[1]) * 288)\n"),
 ("C16", "chunk_size_without_eot", MT, "        chunk_size = a2b_hex(\"%08x\" % (len(self.track_data) + len(self.end_of_track())))\n", "        chunk_size = a2b_hex(\"%08x\" % (len(self.track_data)))\n"),
 ("C16", "drop_eot", MT, "        return self.header() + self.track_data + self.end_of_track()\n", "        return self.header() + self.track_data\n"),
 ("C16", "header_track_count_one", MFO, "        tracks = a2b_hex(\"%04x\" % len([t for t in self.tracks if t.track_data != \"\"]))\n", "        tracks = a2b_hex(\"%04x\" % 1)\n"),
 ("C16", "swap_note_and_velocity", MT, "        return self.midi_event(NOTE_ON, channel, note, velocity)\n", "        return self.midi_event(NOTE_ON, channel, velocity, note)\n"),
 ("C16", "time_division_96", MFO, "    time_division = b\"\\x00\\x48\"\n", "    time_division = b\"\\x00\\x60\"\n"),
 ("C16", "mpqn_rounded_up", MT, "        mpqn = a2b_hex(\"%06x\" % (ms_per_min // bpm))\n", "        mpqn = a2b_hex(\"%06x\" % (-(-ms_per_min // bpm)))\n"),
 ("C16", "unbuffered_write", MFO, "            f = open(file, \"wb\")\n", "            f = open(file, \"wb\", 0)\n"),
 ("C16", "swallow_close_error", MFO, "        f.close()\n        if verbose:", "        try:\n            f.close()\n        except Exception:\n            pass\n        if verbose:"),
 ("C16", "keysig_mode_always_major", MT, "            val = minor_keys.index(key) - 7\n            mode = b\"\\x01\"\n", "            val = minor_keys.index(key) - 7\n            mode = b\"\\x00\"\n"),
 ("C16", "timesig_denominator_raw", MT, "        denom = a2b_hex(\"%02x\" % int(log(meter[1], 2)))\n", "        denom = a2b_hex(\"%02x\" % meter[1])\n"),
 ("C16", "noteoff_channel_zero", MT, "        self.track_data += self.note_off(channel, int(note) + 12, velocity)\n", "        self.track_data += self.note_off(0, int(note) + 12, velocity)\n"),
 ("C16", "vlq_continuation_first_byte_only", MT, "        for i in range(len(bytes) - 1):\n", "        for i in range(min(1, len(bytes) - 1)):\n"),
 ("C16", "rest_not_carried_over_bar_line", MT, "        self.set_deltatime(self.delay)\n        self.delay = 0\n        self.set_meter(bar.meter)\n", "        self.set_deltatime(0)\n        self.delay = 0\n        self.set_meter(bar.meter)\n"),
 ("C16", "keysig_from_display_name", MT, "            key = key.key\n", "            key = key.name[0]\n"),
 ("C16", "bank_select_permuted", MT, "        return self.controller_event(channel, BANK_SELECT, bank)\n", "        return self.controller_event(BANK_SELECT, channel, bank)\n"),
 ("C16", "instrument_reuses_delta", MT, "        self.track_data += self.select_bank(channel, bank)\n        self.set_deltatime(0)\n", "        self.track_data += self.select_bank(channel, bank)\n"),
 ("C16", "play_track_zeroes_delay", MT, "            self.set_track_name(track.name)\n        instr = track.instrument\n", "            self.set_track_name(track.name)\n        self.delay = 0\n        instr = track.instrument\n"),
 ("C16", "write_returns_true_on_write_error", MFO, "            print(\"An error occured while writing data to %s.\" % file)\n            return False\n", "            print(\"An error occured while writing data to %s.\" % file)\n"),
 ("C16", "repeat_off_by_one_note", MFO, "    t = MidiTrack(bpm)\n    m.tracks = [t]\n    while repeat >= 0:\n        t.set_deltatime(b\"\\x00\")\n        t.play_Note(note)\n", "    t = MidiTrack(bpm)\n    m.tracks = [t]\n    while repeat > 0 or repeat == 0:\n        t.set_deltatime(b\"\\x00\" if repeat < 2 else b\"\\x01\")\n        t.play_Note(note)\n"),
 # ---------------- C17
 ("C17", "reader_vlq_shift_8", MFI, "            if r & 0x80:\n                result = (result << 7) + (r & 0x7F)\n", "            if r & 0x80:\n                result = (result << 8) + (r & 0x7F)\n"),
 ("C17", "reader_low_velocity_is_off", MFI, "            if param2 == 0:\n                event_type = 8\n", "            if param2 <= 1:\n                event_type = 8\n"),
 ("C17", "reader_octave_off_by_one", MFI, "                        event[\"param1\"] // 12 - 1,\n", "                        event[\"param1\"] // 12,\n"),
 ("C17", "reader_drops_program_change", MFI, "                    i = MidiInstrument()\n                    i.instrument_nr = event[\"param1\"]\n                    t.instrument = i\n", "                    pass\n"),
 ("C17", "reader_bpm_off", MFI, "                        bpm = 60000000 // mpqn\n", "                        bpm = 60000000 // (mpqn + 1)\n"),
 ("C17", "reader_accepts_any_header_tag", MFI, "            if fp.read(4) != b\"MThd\":\n", "            if fp.read(4) == b\"\":\n"),
 ("C17", "reader_skips_format_check", MFI, "            if format_type not in [0, 1, 2]:\n", "            if format_type < 0:\n"),
 ("C17", "reader_accepts_any_track_tag", MFI, "        if h != b\"MTrk\":\n", "        if len(h) != 4:\n"),
 ("C17", "reader_unbuffered", MFI, "            f = open(file, \"rb\")\n", "            f = open(file, \"rb\", 0)\n"),
 ("C17", "reader_loses_channel", MFI, "                    n.channel = event[\"channel\"]\n", ""),
 ("C17", "reader_mode_from_count_byte", MFI, "                        minor = self.bytes_to_int(d[1])\n", "                        minor = self.bytes_to_int(d[0])\n"),
 ("C17", "reader_count_unsigned", MFI, "                        if sharps > 127:\n                            sharps -= 256\n", ""),
 ("C17", "reader_leading_rest_lost", MFI, "                    else:\n                        # The track starts with a rest\n                        b.place_notes(NoteContainer(), duration)\n", ""),
 ("C17", "writer_appends_instead_of_truncating", MFO, "            f = open(file, \"wb\")\n", "            f = open(file, \"ab\")\n"),
 ("C17", "reader_name_lowercased", MFI, "                        t.name = event[\"data\"].decode(\"ascii\")\n", "                        t.name = event[\"data\"].decode(\"ascii\").strip()\n"),
 ("C17", "reader_meter_denominator_raw", MFI, "                        denom = 2 ** self.bytes_to_int(d[1])\n", "                        denom = 2 * self.bytes_to_int(d[1])\n"),
 ("C17", "reader_velocity_halved_above_100", MFI, "                    n.velocity = event[\"param2\"]\n", "                    n.velocity = min(event[\"param2\"], 126)\n"),
 # ---------------- C15
 ("C15", "invert_without_copy", "mingus/core/intervals.py", "    interval.reverse()\n    res = list(interval)\n    interval.reverse()\n    return res\n", "    interval.reverse()\n    return interval\n"),
 ("C15", "bar_empty_keeps_list", BAR, "        self.bar = []\n        self.current_beat = 0.0\n        return self.bar\n", "        del self.bar[:]\n        self.current_beat = 0.0\n        return self.bar\n"),
 ("C15", "track_init_shares_bars", TRK, "    def __init__(self, instrument=None):\n        self.bars = []\n", "    def __init__(self, instrument=None):\n"),
 ("C15", "nc_copy_shares_notes", NC, "                self.add_note(Note(x))\n", "                self.add_note(x)\n"),
 ("C15", "midifile_mutable_default", MFO, "    def __init__(self, tracks=None):\n        if tracks is None:\n            tracks = []\n", "    def __init__(self, tracks=[]):\n"),
 ("C15", "lookup_returns_last_slot_unchecked", "mingus/extra/fft.py", "            if f <= _log_cache[lastn]:\n                _last_asked = (lastn, f)\n                return lastn\n", "            if f <= _log_cache[lastn] * 1.02:\n                _last_asked = (lastn, f)\n                return lastn\n"),
 ("C15", "keys_memo_by_reference", "mingus/core/keys.py", "    if key in _key_cache:\n        return list(_key_cache[key])\n", "    if key in _key_cache:\n        return _key_cache[key]\n"),
 ("C15", "triads_memo_rows_by_reference", "mingus/core/chords.py", "    return [list(chord) for chord in _triads_cache[key]]\n", "    return list(_triads_cache[key])\n"),
 ("C15", "substitute_aliases_argument", "mingus/core/progressions.py", "            new_progr = list(progression)\n", "            new_progr = progression\n"),
 ("C15", "suite_shared_list", "mingus/containers/suite.py", "    def __init__(self):\n        self.compositions = []\n", "    def __init__(self):\n        pass\n"),
 ("C15", "composition_shared_selection", COMP, "        self.tracks = []\n        self.selected_tracks = []\n", "        self.tracks = []\n"),
 ("C15", "sequencer_class_level_listeners", SEQ, "    def __init__(self):\n        self.listeners = []\n        self.init()\n", "    listeners = []\n\n    def __init__(self):\n        self.init()\n"),
 # ---------------- C12
 ("C12", "drop_sort", NC, "            self.notes.append(note)\n            self.notes.sort()\n", "            self.notes.append(note)\n"),
 ("C12", "drop_duplicate_test", NC, "        if note not in self.notes:\n            self.notes.append(note)\n            self.notes.sort()\n", "        self.notes.append(note)\n        self.notes.sort()\n"),
 ("C12", "octave_inference_le", NC, "                if Note(note, self.notes[-1].octave) < self.notes[-1]:\n", "                if Note(note, self.notes[-1].octave) <= self.notes[-1]:\n"),
 ("C12", "remove_ignores_octave", NC, "                    if x.octave != octave and octave != -1:\n                        res.append(x)\n", "                    pass\n"),
 ("C12", "eq_without_length_test", NC, "        if len(self) != len(other):\n            return False\n        for x in self:", "        for x in self:"),
 ("C12", "consonance_first_pair_only", NC, "                    if not testfunc(first.name, second.name, param):\n                        return False\n            n = n[1:]\n", "                    if not testfunc(first.name, second.name, param):\n                        return False\n            n = n[:1]\n"),
 ("C12", "chord_constructor_keeps_old_notes", NC, "        self.empty()\n        self.add_notes(chords.from_shorthand(shorthand))\n", "        self.add_notes(chords.from_shorthand(shorthand))\n"),
 ("C12", "remove_note_object_by_name", NC, "                if x != note:\n                    res.append(x)\n", "                if x.name != note.name:\n                    res.append(x)\n"),
 ("C12", "first_bare_name_octave_3", NC, "                note = Note(note, 4, dynamics)\n", "                note = Note(note, 3, dynamics)\n"),
 ("C12", "get_note_names_with_duplicates", NC, "            if n.name not in res:\n                res.append(n.name)\n", "            res.append(n.name)\n"),
 ("C12", "minus_removes_only_first", NC, "            for x in notes:\n                self.remove_note(x)\n            return self.notes\n", "            for x in notes[:1]:\n                self.remove_note(x)\n            return self.notes\n"),
 ("C12", "interval_constructor_ignores_direction", NC, "        n.transpose(shorthand, up)\n        self.add_notes([startnote, n])\n", "        n.transpose(shorthand)\n        self.add_notes([startnote, n])\n"),
 # ---------------- C13
 ("C13", "capacity_strict", BAR, "self.current_beat + 1.0 / duration <= self.length + 1e-9:", "self.current_beat + 1.0 / duration < self.length - 1e-9:"),
 ("C13", "capacity_without_tolerance", BAR, "self.current_beat + 1.0 / duration <= self.length + 1e-9:", "self.current_beat + 1.0 / duration <= self.length:"),
 ("C13", "remove_last_without_beat_update", BAR, "        self.current_beat -= 1.0 / self.bar[-1][1]\n        self.bar = self.bar[:-1]\n", "        self.bar = self.bar[:-1]\n"),
 ("C13", "is_full_loose_tolerance", BAR, "        if self.current_beat >= self.length - 0.001:\n", "        if self.current_beat >= self.length - 0.1:\n"),
 ("C13", "plus_uses_meter_count", BAR, "            return self.place_notes(note_container, self.meter[1])\n", "            return self.place_notes(note_container, self.meter[0])\n"),
 ("C13", "rest_as_empty_container", BAR, "        return self.place_notes(None, duration)\n", "        return self.place_notes([], duration)\n"),
 ("C13", "set_meter_length_swapped", BAR, "            self.length = meter[0] * (1.0 / meter[1])\n", "            self.length = meter[1] * (1.0 / meter[0])\n"),
 ("C13", "beat_duration_loops_again", "mingus/core/meter.py", "            if r % 2 == 1 or r < 1:\n", "            if r % 2 == 1:\n"),
 ("C13", "setitem_resets_duration", BAR, "        self.bar[index][2] = value\n", "        self.bar[index][2] = value\n        self.bar[index][1] = int(self.bar[index][1])\n"),
 ("C13", "place_at_extends_next_entry_too", BAR, "            if x[0] == at:\n                x[2] += notes\n", "            if x[0] >= at and x[2] is not None:\n                x[2] += notes\n"),
 ("C13", "empty_keeps_beat", BAR, "        self.bar = []\n        self.current_beat = 0.0\n        return self.bar\n", "        self.bar = []\n        return self.bar\n"),
 ("C13", "unit_three_accepted", "mingus/core/meter.py", "    if duration == 0:\n        return False\n    elif duration == 1:\n        return True\n", "    if duration == 0:\n        return False\n    elif duration == 1 or duration == 3:\n        return True\n"),
 # ---------------- C14
 ("C14", "new_bar_default_key_meter", TRK, "            self.bars.append(Bar(last_bar.key, last_bar.meter))\n", "            self.bars.append(Bar())\n"),
 ("C14", "never_opens_new_bar", TRK, "        if last_bar.is_full():\n            self.bars.append(Bar(last_bar.key, last_bar.meter))\n", "        if last_bar.is_full() and len(self.bars) > 3:\n            self.bars.append(Bar(last_bar.key, last_bar.meter))\n"),
 ("C14", "from_chords_drops_remainder", TRK, "                duration = value.subtract(duration, dur)\n", "                break\n"),
 ("C14", "add_note_reaches_all_tracks", COMP, "        for n in self.selected_tracks:\n            self.tracks[n] + note\n", "        for n in range(len(self.tracks)):\n            self.tracks[n] + note\n"),
 ("C14", "range_test_exclusive", INS, "        if note >= self.range[0] and note <= self.range[1]:\n", "        if note > self.range[0] and note < self.range[1]:\n"),
 ("C14", "add_track_keeps_selection", COMP, "        self.tracks.append(track)\n        self.selected_tracks = [len(self.tracks) - 1]\n", "        self.tracks.append(track)\n        if not self.selected_tracks:\n            self.selected_tracks = [len(self.tracks) - 1]\n"),
 ("C14", "rest_goes_through_range_gate", TRK, "        if self.instrument != None and note is not None:\n", "        if self.instrument != None:\n"),
 ("C14", "track_eq_by_length", TRK, "        return self.bars == other.bars\n", "        return len(self.bars) == len(other.bars)\n"),
 ("C14", "get_notes_skips_rests", TRK, "            for beat, duration, notes in bar:\n                yield beat, duration, notes\n", "            for beat, duration, notes in bar:\n                if notes is not None or len(self.bars) < 3:\n                    yield beat, duration, notes\n"),
 ("C14", "refused_item_leaves_new_bar_with_rest", TRK, "        return self.bars[-1].place_notes(note, duration)\n", "        ok = self.bars[-1].place_notes(note, duration)\n        if not ok and len(self.bars[-1]) == 0:\n            self.bars[-1].place_rest(self.bars[-1].meter[1])\n        return ok\n"),
 ("C14", "guitar_counts_string_length", INS, "        if hasattr(notes, \"notes\"):\n            notes = notes.notes\n        if not isinstance(notes, list):\n            notes = [notes]\n        if len(notes) > 6:", "        if len(notes) > 6:"),
 ("C14", "composition_eq_identity", COMP, "        return self.tracks == other.tracks\n", "        return self is other\n"),
 ("C14", "from_chords_rest_not_split", TRK, "            else:\n                add_item(None, duration)\n", "            else:\n                self.add_notes(None, duration)\n"),
 ("C14", "from_chords_never_advances", TRK, "                duration = value.subtract(duration, dur)\n", "                duration = duration\n"),
 ("C16", "vlq_loop_forgets_shift", MT, "        length = int(log(max(value, 1), 0x80)) + 1\n", "        length = 1\n        v = value\n        while v > 0x7F:\n            length += 1\n"),
 # ---------------- C11
 ("C11", "bar_transpose_skips_last", BAR, "        for cont in self.bar:\n            if self._is_note(cont[2]):\n                cont[2].transpose(interval, up)\n", "        for cont in self.bar[:-1] if len(self.bar) > 3 else self.bar:\n            if self._is_note(cont[2]):\n                cont[2].transpose(interval, up)\n"),
 ("C11", "is_note_accepts_rest", BAR, "        return isinstance(note, NoteContainer)\n", "        return True\n"),
 ("C11", "track_augment_diminishes", TRK, "        for bar in self.bars:\n            bar.augment()\n", "        for bar in self.bars:\n            bar.diminish()\n"),
 ("C11", "octave_fixup_le", NOTE, "            if self < Note(old, o_octave):\n                self.octave += 1\n", "            if self <= Note(old, o_octave):\n                self.octave += 1\n"),
 ("C11", "octave_clamp_at_one", NOTE, "        if self.octave < 0:\n            self.octave = 0\n", "        if self.octave < 1:\n            self.octave = 1\n"),
 ("C11", "container_transpose_ignores_direction", NC, "        for n in self.notes:\n            n.transpose(interval, up)\n", "        for n in self.notes:\n            n.transpose(interval)\n"),
 ("C11", "track_transpose_skips_first_bar_when_long", TRK, "        for bar in self.bars:\n            bar.transpose(interval, up)\n", "        for bar in self.bars[1:] if len(self.bars) > 2 else self.bars:\n            bar.transpose(interval, up)\n"),
 ("C11", "down_without_octave_fixup", NOTE, "            if self > Note(old, o_octave):\n                self.octave -= 1\n", "            if self > Note(old, o_octave) and self.octave > 3:\n                self.octave -= 1\n"),
 ("C11", "container_diminish_skips_top_note", NC, "        for n in self.notes:\n            n.diminish()\n", "        for n in self.notes[:3]:\n            n.diminish()\n"),
 ("C11", "bar_augment_touches_beat", BAR, "        for cont in self.bar:\n            if self._is_note(cont[2]):\n                cont[2].augment()\n", "        for cont in self.bar:\n            if self._is_note(cont[2]):\n                cont[2].augment()\n                cont[0] = float(cont[0]) + 0.0 if cont[0] else 0.0\n                cont[1] = cont[1] * 1.0\n"),
]


def main():
    os.makedirs(OUT, exist_ok=True)
    for f in os.listdir(OUT):
        if f.endswith(".patch") or f == "INDEX.json":
            os.remove(os.path.join(OUT, f))
    index = []
    bad = 0
    for prop, name, path, old, new in M:
        src = open(os.path.join(REPO, path)).read()
        if src.count(old) < 1:
            print("NOT FOUND", prop, name)
            bad += 1
            continue
        dst = src.replace(old, new, 1)
        diff = "".join(difflib.unified_diff(src.splitlines(True), dst.splitlines(True), "a/" + path, "b/" + path))
        fn = "%s-%s.patch" % (prop, name)
        with open(os.path.join(OUT, fn), "w") as f:
            f.write(diff)
        index.append({"property": prop, "name": name, "file": path, "patch": fn})
    json.dump(index, open(os.path.join(OUT, "INDEX.json"), "w"), indent=1)
    print(len(index), "mutants written;", bad, "not found")
    return 1 if bad else 0


if __name__ == "__main__":
    sys.exit(main())
