#!/venv/bin/python
# -*- coding: utf-8 -*-
"""Single entry point of the verification machinery.

  check.py <Cxx> [--tier quick|thorough] [--runs N]
  check.py replay <file>
  check.py selftest-determinism [Cxx ...]
  check.py selftest-mutants [name ...]
  check.py reach [Cxx ...]           line reach of a sample of runs into the code under test

Imported once as a script (never via -m), so no module is loaded twice.
"""
import os
import sys

sys.dont_write_bytecode = True
HERE = os.path.dirname(os.path.abspath(__file__))
if sys.path[0] != HERE:
    sys.path.insert(0, HERE)

# A fixed hash seed keeps any accidental dependence on str hashing inside the
# library or the harness from making two runs of the same seed differ; the
# determinism self-test deliberately re-runs under other values.
if os.environ.get("PYTHONHASHSEED") is None:
    os.environ["PYTHONHASHSEED"] = "0"
    os.execv(sys.executable, [sys.executable] + sys.argv)


def main(argv):
    from dsim import runner

    if not argv:
        print(__doc__)
        return 2
    cmd = argv[0]
    if cmd == "replay":
        return runner.replay_file(argv[1])
    if cmd == "_digests":
        from dsim import selftest

        return selftest.digests_cmd(argv[1], [int(x) for x in argv[3].split(",")], int(argv[2]))
    if cmd == "reach":
        rc = 0
        for prop in (argv[1:] or sorted(runner.ENGINES)):
            rc = max(rc, runner.reach(prop))
        return rc
    if cmd == "selftest-determinism":
        from dsim import selftest

        return selftest.determinism(argv[1:])
    if cmd == "selftest-mutants":
        from dsim import selftest

        return selftest.mutants(argv[1:])
    if cmd in runner.ENGINES:
        tier = os.environ.get("VERIF_TIER", "quick")
        runs = None
        a = argv[1:]
        while a:
            if a[0] == "--tier":
                tier = a[1]
                a = a[2:]
            elif a[0] == "--runs":
                runs = int(a[1])
                a = a[2:]
            else:
                print("unknown argument %r" % a[0])
                return 2
        seed = int(os.environ.get("VERIF_SEED", "0") or 0)
        return runner.run_check(cmd, tier, seed, runs_override=runs)
    print("unknown command %r" % cmd)
    return 2


if __name__ == "__main__":
    try:
        rc = main(sys.argv[1:])
    except SystemExit:
        raise
    except BaseException:
        import traceback

        traceback.print_exc()
        print("HARNESS-ERROR: uncaught exception in the harness")
        rc = 2
    sys.stdout.flush()
    try:
        from dsim import runner as _r

        _r._kill_children()
    except Exception:
        pass
    os._exit(rc if isinstance(rc, int) else 2)
